"""C14 — Hooked timed waits honour the requested timeout."""
from .. import core
from ..core import gz, glist

ID = "C14"
PROPS = ["theories/Props/C14.vo"]
PINNED = ["C14_holds", "C14_oracle_sound", "C14_einval", "C14_no_early_return", "C14_terminates", "C14_upper",
          "C14_upper_deadline", "C14_slices"]
CASES_MODULE = "Cases.C14"
HEADER = "From OCV Require Import Net.Wait Syscall.Timed Syscall.TimedOracle."
AREA = "timed"
ISOLATE = True          # a panic inside the crate's extern "C" functions aborts (select before its repair)
TIMEOUT_MS = 30000
LEVEL = "proof"
SHRINK_KEY = "ops"
SHARD_SIZE = 11
RULE = ("1-5 calls per case drawn from a boundary grid per call (0, 1, 999 us, 1 ms, 16 ms, 1 s, u32::MAX, "
        "i64::MAX, negative fields, tv_nsec = 10^9, slice boundaries 15/16/17/31/32 ms) crossed with start "
        "clocks (0, epoch-like, 2^63, just below u64::MAX) and random values; huge requests are paired with a "
        "start clock near u64::MAX so that the deadline loop ends after a few slices; made on a harness "
        "thread with the virtual clock on (hooks H1+H2), inner poll/select/cond calls scripted as nothing "
        "ready; non-trivial = a call was rejected, saturated the deadline, or needed more than one 10 ms slice; "
        "distinct = distinct call list")
TRUSTED = ["hooks H1 (virtual clock in common::now) and H2 (EventLoop::wait_just on a plain thread reports the "
           "requested wait, advances the virtual clock and returns)",
           "scripted inner calls: poll/select probes return 0, the native timed condition wait moves the virtual "
           "clock to its absolute time and returns ETIMEDOUT"]
ASSUMPTIONS = ["a primitive wait (epoll_wait / coroutine suspension / native timed wait) asked for w ns lets "
               "max(0, w + d) ns pass; d is arbitrary for the lower bound and within [0, eps] for the upper bound; "
               "eps (OS / scheduler slack per primitive wait) is a parameter, not proved",
               "time passes only inside primitive waits (computation between them is not accounted)",
               "nothing becomes ready: inner probes return 0 and the condition is never signalled",
               "poll with a negative timeout or INT_MAX and select whose millisecond count saturates never time "
               "out in the code; they are outside the statement",
               "coroutine callers are covered by the same deadline loops (the primitive wait is then a suspension "
               "until a timestamp, honoured by the scheduler: C10) and by real-time supporting runs only"]

U64 = 2**64 - 1
U32 = 2**32 - 1
I64MAX = 2**63 - 1
I64MIN = -2**63
NS = 10**9
EPOCH = 1_700_000_000_123_456_789
MAXEV = 1500            # events per call kept below this


def _starts(rng):
    return rng.choice([0, 1, 10**18, EPOCH, 2**63, rng.randrange(0, 2**62)])


def _near_end(rng):
    return U64 - rng.choice([0, 1, 999, 10**6, 5 * 10**6, 25 * 10**6, 10**9, rng.randrange(0, 2 * 10**9)])


def _deadline_call(rng, op, req_ns):
    """sleep-like calls: pick a start such that the deadline loop stays short"""
    if req_ns // 10**7 > MAXEV:
        op["start"] = str(_near_end(rng))
    else:
        op["start"] = str(_starts(rng) if rng.random() < 0.75 else _near_end(rng))
    return op


def gen_call(rng):
    k = rng.randrange(6)
    if k == 0:
        secs = rng.choice([0, 0, 1, 2, 3, 7, U32, 2**31, 2**31 - 1, rng.randrange(0, 20), rng.randrange(0, U32 + 1)])
        return _deadline_call(rng, {"op": "sleep", "secs": secs}, secs * NS)
    if k == 1:
        us = rng.choice([0, 1, 999, 1000, 1001, 9999, 10000, 10001, 16000, 10**6, 999999, U32, 2**31,
                         rng.randrange(0, 50000), rng.randrange(0, U32 + 1)])
        return _deadline_call(rng, {"op": "usleep", "usec": us}, us * 1000)
    if k == 2:
        r = rng.random()
        if r < 0.25:    # invalid
            sec, nsec = rng.choice([(-1, 0), (0, -1), (0, NS), (I64MIN, 0), (0, I64MAX), (-1, -1), (5, NS + 7),
                                    (I64MAX, NS), (-7, 999999999), (0, I64MIN)])
        else:
            sec = rng.choice([0, 0, 0, 1, 2, U32, I64MAX, 18446744073, 18446744074, rng.randrange(0, 20)])
            nsec = rng.choice([0, 1, 999, 999999, 10**6, 16 * 10**6, 9999999, 10**7, 10**7 + 1, 999999999,
                               rng.randrange(0, NS)])
        op = {"op": "nanosleep", "sec": str(sec), "nsec": str(nsec)}
        return _deadline_call(rng, op, max(0, sec) * NS + max(0, nsec))
    if k == 3:
        ms = rng.choice([0, 1, 2, 3, 4, 7, 8, 15, 16, 17, 30, 31, 32, 33, 50, 100, 999, 1000, 2500,
                         rng.randrange(0, 3000)])
        return {"op": "poll", "ms": str(ms), "start": str(_starts(rng) if rng.random() < 0.8 else _near_end(rng))}
    if k == 4:
        r = rng.random()
        if r < 0.25:
            sec, usec = rng.choice([(-1, 0), (0, -1), (I64MIN, 0), (0, I64MIN), (-1, -1), (-5, 999999), (3, -1)])
        else:
            sec = rng.choice([0, 0, 0, 1, 2])
            usec = rng.choice([0, 1, 999, 1000, 1001, 2000, 15999, 16000, 16001, 999999, 10**6, 10**6 + 1,
                               rng.randrange(0, 10**6)])
        return {"op": "select", "sec": str(sec), "usec": str(usec),
                "start": str(_starts(rng) if rng.random() < 0.8 else _near_end(rng))}
    # cond: absolute deadline
    r = rng.random()
    if r < 0.2:
        start = _starts(rng)
        sec, nsec = rng.choice([(-1, 0), (0, -1), (0, NS), (I64MIN, 5), (7, I64MAX), (-1, NS)])
        return {"op": "cond", "sec": str(sec), "nsec": str(nsec), "start": str(start)}
    if r < 0.35:        # far future, clock near the end
        start = _near_end(rng)
        sec, nsec = rng.choice([(I64MAX, 999999999), (18446744073, 709551615), (18446744074, 0), (2**40, 5)])
        return {"op": "cond", "sec": str(sec), "nsec": str(nsec), "start": str(start)}
    start = rng.choice([NS, EPOCH, 10**18, 2**63, rng.randrange(NS, 2**62)])
    d = rng.choice([-NS, -1, 0, 1, 999, 10**6, 9999999, 10**7, 10**7 + 1, 16 * 10**6, 25 * 10**6, 2 * 10**7,
                    NS, 5 * NS, rng.randrange(0, 10**8)])
    ab = max(0, start + d)
    return {"op": "cond", "sec": str(ab // NS), "nsec": str(ab % NS), "start": str(start)}


def gen(rng, tier):
    n = {"quick": 120, "thorough": 2000, "search": 500}[tier]
    cases = []
    for _ in range(n):
        cases.append({"ops": [gen_call(rng) for _ in range(rng.randint(1, 5))]})
    return cases


def mutate(rng, case):
    return [{"ops": [gen_call(rng)] + [dict(o) for o in case["ops"]]} for _ in range(4)]


def _call(o):
    k = o["op"]
    if k == "sleep":
        return "Sleep %s" % gz(o["secs"])
    if k == "usleep":
        return "Usleep %s" % gz(o["usec"])
    if k == "nanosleep":
        return "Nanosleep %s %s" % (gz(o["sec"]), gz(o["nsec"]))
    if k == "poll":
        return "Poll %s" % gz(o["ms"])
    if k == "select":
        return "Select %s %s" % (gz(o["sec"]), gz(o["usec"]))
    if k == "cond":
        return "CondWait %s %s" % (gz(o["sec"]), gz(o["nsec"]))
    raise ValueError(k)


def _ev(e):
    k, v, n = e
    if k == 0:
        t = "EW %s" % gz(v)
    elif k == 1:
        t = "EP" if int(v) == 0 else "EW (-1)"      # a probe with a non-zero timeout matches nothing
    else:
        t = "EI %s" % gz(v)
    return "(%s, %s)" % (t, gz(n))


def _obs(v):
    if isinstance(v, dict) and "end" in v:
        e = v["errno"] if int(v["ret"]) == -1 else 0
        evs = v["ev"]
        if v.get("n", 0) > 4 * MAXEV or len(evs) > 4 * MAXEV:
            # far more waits than any generated request needs: keep the term small; the marker matches
            # no model event, the oracle still judges return value and final clock
            evs = [[0, "-2", 1]]
        return "OCall %s %s %s %s" % (gz(v["ret"]), gz(e), gz(v["end"]), glist([_ev(x) for x in evs]))
    if isinstance(v, str) and v.startswith(("aborted", "exited")):
        return "OAbort"
    return "ODiverged"


def term(case, obs):
    calls = ["(%s, %s)" % (_call(o), gz(o["start"])) for o in case["ops"]]
    return "(%s, %s)" % (glist(calls), glist([_obs(v) for v in obs]))


def nontrivial(case, obs, verdict):
    return bool(set(verdict["tags"]) & {"einval", "saturate", "multi_slice"})


def distribution(results):
    d = {"calls": 0, "max_events_in_a_call": 0, "aborted_cases": 0}
    for c, o, v in results:
        d["calls"] += len(c["ops"])
        for t in v["tags"]:
            d[t] = d.get(t, 0) + 1
        for x in o:
            if isinstance(x, dict) and "n" in x:
                d["max_events_in_a_call"] = max(d["max_events_in_a_call"], x["n"])
            elif isinstance(x, str) and x.startswith(("aborted", "exited")):
                d["aborted_cases"] += 1
    return d


# ----------------------------------------------------------------------------- real-time support

def _real_cases(tier, rng):
    reqs = [1000, 2 * 10**6, 17 * 10**6, 30 * 10**6] if tier == "quick" else \
           [0, 1000, 999 * 10**3, 2 * 10**6, 10 * 10**6, 17 * 10**6, 30 * 10**6, 50 * 10**6]
    cases = []
    for ctx in ("thread", "coroutine"):
        for ns in reqs:
            ops = [
                {"op": "usleep", "usec": ns // 1000},
                {"op": "nanosleep", "sec": "0", "nsec": str(ns)},
                {"op": "poll", "ms": str(ns // 10**6)},
                {"op": "select", "sec": "0", "usec": str(ns // 1000)},
                {"op": "cond", "rel": str(ns)},
            ]
            for o in ops:
                o["real"] = True
                o["ctx"] = ctx
                cases.append({"ops": [o], "origin": "extra"})
    # a timed wait that follows a hooked recv which had to wait for its data (coroutine callers):
    # the recv's unused wait slice must not cut the sleep short
    for ns in ([17 * 10**6, 30 * 10**6] if tier == "quick" else [12 * 10**6, 17 * 10**6, 30 * 10**6, 50 * 10**6]):
        for o in ({"op": "nanosleep", "sec": "0", "nsec": str(ns)}, {"op": "usleep", "usec": ns // 1000},
                  {"op": "poll", "ms": str(ns // 10**6)}):
            o.update({"real": True, "ctx": "coroutine", "after_recv": True})
            cases.append({"ops": [o], "origin": "extra"})
    return cases


def _req_ns(o):
    k = o["op"]
    if k == "usleep":
        return int(o["usec"]) * 1000, 1
    if k == "nanosleep":
        return int(o["nsec"]), 1
    if k == "poll":
        return int(o["ms"]) * 10**6, int(o["ms"]) // 16 + 6
    if k == "select":
        ms = (int(o["usec"]) + 999) // 1000
        return int(o["usec"]) * 1000, ms // 16 + 6
    return int(o["rel"]), 1


def extra(tier, rng, build_cache, known):
    """Real-time runs (no virtual clock) on a plain thread and inside a task of the event loop.
    One-sided: only a return before the requested timeout (or a wrong return value) is a violation;
    overshoot and runs that did not finish within 10 s (loaded machine) are reported as figures."""
    key = ((), False)
    if key not in build_cache:
        build_cache[key], _ = core.build_harness((), False)
    cases = _real_cases(tier, rng)
    for i, c in enumerate(cases):
        c["id"] = i
    res = core.run_harness(build_cache[key], AREA, cases, isolate=True, timeout_ms=15000, jobs=8)
    viol = []
    worst = 0
    checked = 0
    incomplete = 0
    for c in cases:
        o = c["ops"][0]
        r = res[c["id"]]
        x = r[0] if r else None
        req, _slices = _req_ns(o)
        want = 110 if o["op"] == "cond" else 0
        if not isinstance(x, dict) or "elapsed" not in x:
            incomplete += 1
            continue
        el = int(x["elapsed"])
        checked += 1
        worst = max(worst, el - req)
        if int(x["ret"]) != want:
            viol.append({"case": c, "obs": r, "note": "unexpected return value"})
        elif el < req:
            viol.append({"case": c, "obs": r, "note": "returned %d ns before the requested timeout" % (req - el)})
    return {"info": {"real_time_runs": checked, "real_time_incomplete": incomplete,
                     "real_time_worst_overshoot_ns": worst}, "violations": viol}


LEVEL_TEXT = ("Unbounded theorems (all c_uint / c_int / timespec / timeval arguments, all u64 start clocks, all "
              "behaviours of the primitive wait) about a Gallina transcription of the plain-thread path of "
              "sleep, usleep, nanosleep, poll, select and pthread_cond_timedwait down to "
              "EventLoop::timed_wait_just / wait_just: invalid arguments give EINVAL with nothing waited; a call "
              "returns only at a clock reading >= start + request (saturating), even if primitive waits come back "
              "early; every call terminates; with primitive waits overshooting by at most eps the return is no "
              "later than request + rounding + 2*eps per wait_event slice. The transcription is tied to the "
              "repository by running the real entry points on a harness thread with the virtual clock on and "
              "comparing the exact sequence of requested waits, the return value and the final clock inside Coq.")
LEVEL_NOTE = ("The per-wait slack eps of the OS / scheduler is an explicit parameter of C14_upper, not a proved "
              "quantity; coroutine callers are covered by the shared deadline loops and by real-time runs with "
              "one-sided bounds only. No axioms (Print Assumptions: closed under the global context).")
TECHNIQUE = ("machine-checked proof (Coq) about an executable model with a clock oracle + exact differential "
             "correspondence under a virtual clock; real-time runs as supporting evidence")
