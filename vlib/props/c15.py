"""C15 — A coroutine blocked in a hooked call does not stall its event loop."""
from .. import core, poolcases

ID = "C15"
PROPS = ["theories/Props/C15.vo"]
CASES_MODULE = "Cases.C15"
AREA = "pool"
ISOLATE = True          # task / coroutine queues of the crate are process-global: one history per process
TIMEOUT_MS = 6000
LEVEL = "proof"
SHRINK_KEY = "ops"
SHARD_SIZE = 12
term = poolcases.term

U64 = 2**64 - 1
NS_MS = 10**6


class _Uid:
    """wake-up times are pairwise distinct (the order a BinaryHeap yields equal keys in is not modelled)"""

    def __init__(self):
        self.n = 0

    def next(self):
        self.n += 1
        return self.n


def sleep_block(name, t):
    return [
        {"i": "syscall", "y": "0", "n": name, "st": {"k": "exec"}},
        {"i": "syscall", "y": "0", "n": name, "st": {"k": "susp", "t": str(t)}},
        {"i": "until", "y": "0", "t": str(t)},
        {"i": "syscall", "y": "0", "n": name, "st": {"k": "exec"}},
        {"i": "running"},
    ]


def logs(rng, lo=0, hi=3):
    return [{"i": "log", "k": rng.randrange(10)} for _ in range(rng.randint(lo, hi))]


def submit(body):
    return {"op": "submit", "p": 0, "body": body, "prio": None}


def gen_wf(rng, shape):
    """histories the theorems quantify over: submit / pass / clock on one pool (0, mx, 0); every task is an
    optional hooked sleep followed by progress marks"""
    uid = _Uid()
    if shape == "overlap":          # N <= mx sleepers (+ computing siblings), a pass, time passes, a pass
        mx = rng.choice([1, 2, 3, 4, 8, 16, 65536])
        n = rng.randint(1, min(mx, 16))
    elif shape == "sibling":        # N < mx
        mx = rng.choice([2, 3, 4, 8, 16, 65536])
        n = rng.randint(1, min(mx - 1, 12))
    elif shape == "saturated":      # more sleepers than worker slots
        mx = rng.choice([1, 2, 3, 4])
        n = mx + rng.randint(1, 4)
    else:
        mx = rng.choice([1, 2, 4, 8, 65536])
        n = rng.randint(0, 6)
    clock = rng.choice([0, NS_MS, 10**9, 1_700_000_000_000_000_000])
    cur = clock
    ops = []
    wake = []
    rounds = 1 if shape != "rounds" else rng.randint(2, 4)
    for r in range(rounds):
        d = rng.choice([50, 200, 1, 5]) * NS_MS
        tasks = []
        for _ in range(n):
            t = cur + d + uid.next()
            wake.append(t)
            tasks.append(sleep_block(rng.randrange(3), t) + logs(rng, 0, 2))
        for _ in range(rng.randint(0, 4)):
            tasks.append(logs(rng, 0, 4))
        rng.shuffle(tasks)
        for b in tasks:
            ops.append(submit(b))
        if rng.random() < 0.15:
            ops.append({"op": "pass", "p": 0, "deadline": str(rng.choice([0, cur]))})       # cut at once
        ops.append({"op": "pass", "p": 0, "deadline": str(U64 if rng.random() < 0.7 else cur + 10**12)})
        if rng.random() < 0.3:
            ops.append({"op": "pass", "p": 0, "deadline": str(U64)})
        if shape == "rounds" and rng.random() < 0.5 and wake:
            # part of the sleepers are due, part are not
            cur = max(cur, sorted(wake)[len(wake) // 2])
        else:
            cur = max([cur] + wake) + rng.choice([0, 1, 1000, NS_MS])
        ops.append({"op": "clock", "c": str(cur)})
        if shape == "rounds":
            n = rng.randint(0, 5)
        else:
            n = 0
    ops.append({"op": "pass", "p": 0, "deadline": str(U64)})
    if wake and max(wake) > cur:
        cur = max(wake)
        ops.append({"op": "clock", "c": str(cur)})
        ops.append({"op": "pass", "p": 0, "deadline": str(U64)})
    return {"clock": str(clock), "pools": [[0, mx, 0]], "ops": ops, "kind": "wf_" + shape, "stream": True}


def gen_free(rng):
    """outside the proved family (oracle + correspondence only): delays, plain yields, clock ticks inside
    bodies, returns and panics, result queries between the passes"""
    uid = _Uid()
    mx = rng.choice([1, 2, 3, 4, 65536])
    clock = rng.choice([0, NS_MS, 10**9])
    cur = clock
    ticks = 0
    ops = []
    ntask = 0
    for _ in range(rng.randint(3, 14)):
        k = rng.random()
        if k < 0.5 or ntask == 0:
            body = []
            for _ in range(rng.randint(0, 4)):
                q = rng.random()
                if q < 0.35:
                    body += sleep_block(rng.randrange(3), cur + rng.choice([1, 2, 5, 50]) * 1000 + uid.next())
                elif q < 0.5:
                    body.append({"i": "delay", "y": "0", "d": str(rng.choice([0, 1, 2, 5]) * 1000 + uid.next())})
                elif q < 0.6:
                    body.append({"i": "suspend", "y": "0"})
                elif q < 0.7:
                    body.append({"i": "tick", "d": str(rng.choice([1, 2, 10]) * 1000)})
                else:
                    body.append({"i": "log", "k": rng.randrange(10)})
            q = rng.random()
            if q < 0.5:
                body.append({"i": "return", "v": str(rng.choice([0, 1, 7]))})
            elif q < 0.6:
                body.append({"i": "panic", "k": "static", "m": rng.randrange(100)})
            ticks += sum(int(i["d"]) for i in body if i["i"] == "tick")
            ops.append(submit(body))
            ntask += 1
        elif k < 0.75:
            q = rng.random()
            dl = U64 if q < 0.7 else (cur + rng.choice([1, 5, 30]) * 1000 if q < 0.9 else cur)
            ops.append({"op": "pass", "p": 0, "deadline": str(dl)})
        elif k < 0.88:
            cur = cur + ticks + rng.choice([1, 2, 5, 20, 200]) * 1000
            ops.append({"op": "clock", "c": str(cur)})
        else:
            ops.append({"op": rng.choice(["running", "size", "state"]), "p": 0})
    cur = cur + ticks + 10**9
    ops.append({"op": "clock", "c": str(cur)})
    ops.append({"op": "pass", "p": 0, "deadline": str(U64)})
    ops.append({"op": "pass", "p": 0, "deadline": str(U64)})
    ops.append({"op": "running", "p": 0})
    return {"clock": str(clock), "pools": [[0, mx, 0]], "ops": ops, "kind": "free", "stream": True}


def gen(rng, tier):
    n = {"quick": 96, "thorough": 1200, "search": 500}[tier]
    shapes = ["overlap", "overlap", "sibling", "saturated", "rounds", "rounds"]
    cases = []
    for i in range(n):
        if i % 4 == 3:
            cases.append(gen_free(rng))
        else:
            cases.append(gen_wf(rng, shapes[i % len(shapes)]))
    return cases


def mutate(rng, case):
    out = []
    for _ in range(3):
        c = {k: v for k, v in case.items() if k not in ("id", "origin")}
        c["ops"] = list(case["ops"]) + [{"op": "pass", "p": 0, "deadline": str(U64)}]
        c["pools"] = [[0, rng.choice([1, 2, 4]), 0]]
        out.append(c)
    return out


def nontrivial(case, obs, verdict):
    return bool(set(verdict["tags"]) & {"overlap2", "pending_at_max", "blocked_none_pending"})


def distribution(results):
    d = poolcases.distribution(results)
    d["sleepers_per_case"] = {}
    d["max_size"] = {}
    for c, o, v in results:
        n = sum(1 for op in c["ops"] if op["op"] == "submit" and any(i["i"] == "until" for i in op["body"]))
        d["sleepers_per_case"][str(n)] = d["sleepers_per_case"].get(str(n), 0) + 1
        mx = str(c["pools"][0][1])
        d["max_size"][mx] = d["max_size"].get(mx, 0) + 1
    return d


RULE = ("single pool (min 0, max mx, keep-alive 0 = the crate's defaults with mx in {1,2,3,4,8,16,65536}) on the "
        "virtual clock; 3 of 4 cases are in the proved family: 1-4 rounds of [submit N sleepers (one hooked-sleep "
        "block each, pairwise distinct wake-up times, d in {1,5,50,200} ms) mixed with 0-4 computing tasks, a pass "
        "(sometimes cut at once by its deadline), the clock moves past some or all wake-up times], shapes overlap "
        "(N <= mx), sibling (N < mx), saturated (N > mx), rounds; 1 of 4 free-form (delays, plain yields, ticks, "
        "returns, panics, queries); non-trivial = some judged pass ended with >= 2 workers blocked at once, or with "
        "a blocked worker and nothing pending, or with pending work and every slot blocked; distinct = distinct "
        "(config, op list)")
TRUSTED = ["hook H1 (virtual clock in common::now); the pool area of the harness: task bodies interpreted from "
           "instruction lists inside real worker coroutines, a hooked sleep is the state sequence the facade and "
           "EventLoop::wait_just perform (Syscall Executing, Syscall Suspend(t), until(t), Syscall Executing, Running)",
           "recording listener on the pool's scheduler (worker state changes)"]
ASSUMPTIONS = ["virtual time: a hooked sleep of length d started at clock t0 is 'until t0 + d'; time passes only "
               "between passes (no clock ticks inside bodies in the proved family)",
               "one event loop (one pool on one thread); the pool has the crate's default min_size 0 and "
               "keep_alive_time 0, any max_size",
               "real overlap on the OS clock (epoll timeouts, thread scheduling) is observed by the supporting "
               "real-time runs with a one-sided generous bound, not proved"]

PINNED = ["C15_holds", "C15_overlap", "C15_sibling_progress", "C15_parse_sound"]


# ----------------------------------------------------------------------------- real-time support

def extra(tier, rng, build_cache, known):
    """Real time, supporting evidence only: a real EventLoops with one loop; N tasks call the crate's hooked
    nanosleep / usleep for d ms, with computing tasks in between. One-sided and generous: a runtime that ran
    the sleeps one after another needs N*d; demanded is makespan < d + 0.5*(N-1)*d (for N >= 2), measured from
    the first sleeper's start to the last sleeper's return, and the computing siblings done before that bound as
    well; a configuration counts as failing only if it fails three runs in a row (loaded machine). A sleeper
    returning early is a violation at once."""
    key = ((), False)
    if key not in build_cache:
        build_cache[key], _ = core.build_harness((), False)
    grid = [(2, 50), (8, 50), (16, 50), (2, 200), (8, 200), (16, 200)]
    if tier == "quick":
        grid = [(2, 50), (8, 50), (16, 50), (8, 200)]
    cases = []
    for n, d in grid:
        cases.append({"n": n, "d_ms": d, "comp": 3, "call": "nanosleep" if (n + d) % 3 else "usleep", "origin": "extra"})
    for i, c in enumerate(cases):
        c["id"] = i
    viol = []
    runs = []
    incomplete = 0
    todo = list(cases)
    attempts = 0
    last = {}
    while todo and attempts < 3:
        # a loaded machine makes single runs noisy; a runtime that serialises the sleeps fails every time
        attempts += 1
        res = core.run_harness(build_cache[key], "c15rt", todo, isolate=True, timeout_ms=30000, jobs=2)
        again = []
        for c in todo:
            r = res.get(c["id"], [])
            x = r[0] if r else None
            if not isinstance(x, dict) or "makespan_ns" not in x:
                last[c["id"]] = (c, r, None)
                again.append(c)
                continue
            n, d = c["n"], c["d_ms"] * NS_MS
            first = int(x["first_sleep_start_ns"])
            mk = int(x["makespan_ns"]) - first             # from the first sleeper's start to the last one's return
            sib = max(0, int(x["sibling_ns"]) - first)
            mn = int(x["min_sleep_ns"])
            bound = d + (n - 1) * d // 2
            note = None
            if mk >= bound:
                note = "makespan %d ns >= bound %d ns (one after another would be %d)" % (mk, bound, n * d)
            elif sib >= bound:
                note = "computing siblings finished only %d ns after the first sleeper started" % sib
            elif mn < d:
                note = "a sleeper returned %d ns early" % (d - mn)
            elif int(x.get("bad_ret", 0)) != 0:
                note = "hooked sleep returned an error"
            rec = {"n": n, "d_ms": c["d_ms"], "call": c["call"], "makespan_ms": round(mk / 1e6, 1),
                   "siblings_done_ms": round(sib / 1e6, 1), "startup_ms": round(first / 1e6, 1),
                   "serial_ms": n * c["d_ms"], "bound_ms": bound // NS_MS, "attempt": attempts}
            last[c["id"]] = (c, r, note, rec)
            if note is not None and not note.startswith("a sleeper returned") and attempts < 3:
                again.append(c)
        todo = again
    for cid in sorted(last):
        ent = last[cid]
        if ent[2] is None and len(ent) == 3:
            incomplete += 1
            continue
        c, r, note, rec = ent
        runs.append(rec)
        if note is not None:
            viol.append({"case": c, "obs": r, "note": note})
    return {"info": {"real_time_runs": runs, "real_time_incomplete": incomplete}, "violations": viol}


LEVEL_TEXT = ("Unbounded theorems (every max_size, start clock, number and order of tasks, deadlines and clock "
              "changes) about the executable pool model Sched/Pool.v (worker loop of try_grow, creator listener, "
              "do_schedule with its syscall-suspend heap, work-steal queues) on virtual time: at the end of every "
              "scheduling pass that was not cut by its deadline, either no task is pending or every worker slot is "
              "occupied by a worker blocked in a hooked wait whose time has not come; no pass errs or diverges "
              "(C15_holds). Corollaries over the model's own run: N <= max_size sleepers all start their wait in the "
              "first pass and all tasks are finished after one pass past the wake-up times (C15_overlap); with a spare "
              "slot every computing sibling finishes in the first pass (C15_sibling_progress). The model is tied to "
              "the repository by running the same histories on a real CoroutinePool (real worker coroutines, real "
              "scheduler, recording listener, virtual clock) and comparing all observations inside Coq; the oracle is "
              "evaluated on the implementation's trace.")
LEVEL_NOTE = ("Partial by nature: the theorems are about virtual time (a hooked sleep is the state sequence the "
              "facade and EventLoop::wait_just perform, with 'until t' as the wait; time passes only between passes). "
              "That the OS clock, epoll timeouts and the loop thread really overlap the sleeps is only observed by "
              "the real-time runs (one loop, N in {2,8,16}, d in {50,200} ms, one-sided bound d + 0.5*(N-1)*d), not "
              "proved. One event loop, default min_size 0 / keep_alive_time 0 only; the dylib interposition "
              "(hook crate) and socket waits are not exercised. No axioms (Print Assumptions: closed under the "
              "global context).")
TECHNIQUE = ("machine-checked proof (Coq, invariant + termination measure over the pool model's scheduling pass) + "
             "exact differential correspondence under a virtual clock; real-time makespan runs as supporting evidence")
