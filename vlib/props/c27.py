"""C27 — io_uring completions reach the call that submitted them."""
from ..core import gz, glist, gbool

ID = "C27"
PROPS = ["theories/Props/C27.vo"]
PINNED = ["C27_errno_mapping", "C27_holds_outside", "C27_own_completion", "C27_call_spec",
          "C27_refuted_timed_out_call_keeps_slot", "C27_bad_fd_any_caller"]
CASES_MODULE = "Cases.C27"
HEADER = ""
AREA = "uring"
FEATURES = ("io_uring",)
ISOLATE = True
TIMEOUT_MS = 15000
HARNESS_JOBS = 4
LEVEL = "proof"
SHRINK_KEY = "ops"
SHARD_SIZE = 30
RULE = ("cases of 1-4 callers (plain threads and coroutines of the event loop), each with a program of 1-4 hooked "
        "read/recv/write/send calls on 1-3 descriptors of its own (pipe ends, socketpair ends with and "
        "without a closed peer or a receive time limit, a descriptor number that is not open, a memfd sealed against "
        "writing whose writes complete with exactly -1 = -EPERM), errno set to a sentinel before every call, payloads that differ "
        "per descriptor, and a script that starts the callers, feeds descriptors and releases threads "
        "parked between slot registration and submission in a random order; plus the scenarios of the recorded "
        "finding; a case is non-trivial when at least two callers had calls in flight on different descriptors or a "
        "call ended with an error completion; distinct = distinct (descriptors, programs, script)")
TRUSTED = ["Linux io_uring (SQPOLL) as the completion source: completion order is whatever the kernel does, it is not "
           "observed; the model takes it as an input and the theorem covers every order",
           "kernel results of read/recv/write/send on pipe ends, socketpair ends, a write-sealed empty memfd and a closed descriptor number as "
           "specified by Net/Uring.v (classify/kernel); validated only through these runs",
           "hook point io_uring_between_submit_and_register (feature verif) to park a thread between the two steps "
           "of a submission; observer point event_loop_resume to count dispatched completions"]
ASSUMPTIONS = ["tokens of callers that have calls pending at the same time are distinct (coroutine id, or hash of thread "
               "id and syscall name); not observed, assumed",
               "every descriptor is used by one caller only; coroutine callers run on a single event loop (no "
               "migration between loops)",
               "reads on descriptors whose peer stays open are fed in chunks aligned with the reads, so results do not "
               "depend on timing (the theorem does not need this, the comparison with the real run does)"]

KIND = {"pipe_r": "KPipeR", "pipe_w": "KPipeW", "sock": "KSock", "closed": "KClosed", "sealed": "KSealed"}
OP = {"read": "ORead", "recv": "ORecv", "write": "OWrite", "send": "OSend"}


def classify(kind, op):
    if kind == "closed":
        return "err"
    if kind == "sealed":
        return "r" if op == "read" else "err"
    if kind == "pipe_r":
        return {"read": "r", "write": "err"}.get(op, "err")
    if kind == "pipe_w":
        return {"write": "w", "read": "err"}.get(op, "err")
    return "r" if op in ("read", "recv") else "w"


# ------------------------------------------------------------------------------------ generation

def gen_normal(rng, big=False):
    ncall = rng.choice([1, 2, 2, 3, 3, 4] if not big else [2, 3, 4, 4, 5])
    res = []
    callers = []
    feeds = []
    any_co = False
    for ci in range(ncall):
        co = rng.random() < 0.45
        any_co = any_co or co
        mine = []
        for _ in range(rng.randint(1, 3)):
            r = len(res)
            kind = rng.choices(["pipe_r", "sock", "pipe_w", "closed", "sealed"], [34, 30, 14, 10, 14])[0]
            spec = {"kind": kind, "pre": 0, "eof": kind == "sealed", "limit_ms": 0}
            if kind in ("pipe_w", "sock") and rng.random() < 0.25:
                spec["eof"] = True
            if kind == "sock" and not co and rng.random() < 0.3:
                spec["limit_ms"] = rng.choice([30, 500])
            res.append(spec)
            mine.append(r)
        prog = []
        ncalls = rng.randint(1, 4 if not big else 6)
        reads = {r: [] for r in mine}
        for k in range(ncalls):
            r = rng.choice(mine)
            kind = res[r]["kind"]
            if kind == "closed":
                op = rng.choice(["read", "recv", "write", "send"])
            elif rng.random() < 0.12:
                op = rng.choice(["read", "recv", "write", "send"])
            elif kind == "pipe_r":
                op = "read"
            elif kind == "pipe_w":
                op = "write"
            elif kind == "sealed":
                op = rng.choice(["write", "write", "write", "read"])
            else:
                op = rng.choice(["read", "recv", "recv", "write", "send"])
            ln = rng.choice([1, 2, 3, 4, 5, 8, 13, 32])
            call = {"op": op, "r": r, "len": ln, "hold": (not co) and rng.random() < 0.2}
            if classify(kind, op) == "r":
                reads[r].append(ln)
            prog.append(call)
        # supply for the data reads of every readable descriptor
        for r in mine:
            spec = res[r]
            if spec["kind"] not in ("pipe_r", "sock"):
                continue          # (a sealed memfd is empty: its reads are at end of stream at once)
            lens = reads[r]
            if spec["eof"]:
                # closed peer: everything is preloaded; reads may come up short and hit end of stream
                spec["pre"] = max(0, sum(lens) + rng.choice([-5, -2, -1, 0, 0, 3]))
                continue
            # open peer: chunks aligned with groups of reads; the first may be preloaded
            groups = []
            cur = 0
            for ln in lens:
                cur += ln
                if rng.random() < 0.6:
                    groups.append(cur)
                    cur = 0
            if cur:
                groups.append(cur)
            if groups and rng.random() < 0.5:
                spec["pre"] = groups.pop(0)
            if rng.random() < 0.3:
                extra = rng.randint(1, 4)
                if groups:
                    groups[-1] += extra
                else:
                    spec["pre"] += extra
            for g in groups:
                feeds.append({"e": "feed", "r": r, "n": g, "wait": False})
        callers.append({"co": co, "tok": 1000 + ci, "prog": prog})
    # the script: per-descriptor feed order is kept, everything else is shuffled
    events = [{"e": "start", "c": ci} for ci in range(ncall)]
    for ci, c in enumerate(callers):
        for it in c["prog"]:
            if it.get("hold"):
                events.append({"e": "reg", "c": ci})
    for _ in range(rng.randint(0, 3)):
        events.append({"e": "complete", "j": rng.randint(0, 2)})
    if rng.random() < 0.3:
        events.append({"e": "sleep", "ms": rng.choice([5, 15, 30])})
    rng.shuffle(events)
    ops = list(events)
    for f in feeds:                      # insert feeds keeping their relative order per descriptor
        lo = 0
        for i, e in enumerate(ops):
            if e.get("e") == "feed" and e["r"] == f["r"]:
                lo = i + 1
        ops.insert(rng.randint(lo, len(ops)), f)
    # a thread parked on a request the kernel could already answer: give the window some room
    loops = 1 if any_co else rng.choice([1, 1, 2])
    return {"loops": loops, "res": res, "callers": callers, "ops": ops}


def gen_hold_window(rng):
    """a thread parked between the two steps of a submission whose request can complete at once"""
    n = rng.randint(1, 2)
    res = []
    callers = []
    ops = []
    for ci in range(n):
        ln = rng.choice([2, 3, 5])
        res.append({"kind": rng.choice(["pipe_r", "sock"]), "pre": ln + rng.randint(0, 3), "eof": False, "limit_ms": 0})
        prog = [{"op": "read", "r": len(res) - 1, "len": ln, "hold": True}]
        if rng.random() < 0.5:
            res.append({"kind": "pipe_w", "pre": 0, "eof": False, "limit_ms": 0})
            prog.append({"op": "write", "r": len(res) - 1, "len": rng.choice([1, 4]), "hold": rng.random() < 0.5})
        callers.append({"co": False, "tok": 1000 + ci, "prog": prog})
    for ci in range(n):
        ops.append({"e": "start", "c": ci})
    ops.append({"e": "sleep", "ms": 35})
    for ci in range(n):
        ops.append({"e": "reg", "c": ci})
    return {"loops": rng.choice([1, 2]), "res": res, "callers": callers, "ops": ops}


def gen_busy(rng):
    """several threads making many calls at once: the submission queue is shared by all of them"""
    n = rng.randint(3, 4)
    res = []
    callers = []
    for ci in range(n):
        ncalls = rng.randint(8, 10)
        lens = [rng.choice([1, 2, 3]) for _ in range(ncalls)]
        res.append({"kind": rng.choice(["pipe_r", "sock"]), "pre": sum(lens) + rng.randint(0, 2), "eof": False, "limit_ms": 0})
        r_in = len(res) - 1
        if rng.random() < 0.3:
            res.append({"kind": "sealed", "pre": 0, "eof": True, "limit_ms": 0})
        else:
            res.append({"kind": "pipe_w", "pre": 0, "eof": rng.random() < 0.3, "limit_ms": 0})
        r_out = len(res) - 1
        prog = []
        for ln in lens:
            if rng.random() < 0.7:
                prog.append({"op": "read", "r": r_in, "len": ln, "hold": False})
            else:
                prog.append({"op": rng.choice(["write", "write", "recv"]), "r": r_out, "len": ln, "hold": False})
        callers.append({"co": False, "tok": 1000 + ci, "prog": prog})
    ops = [{"e": "start", "c": ci} for ci in range(n)]
    return {"loops": 1, "res": res, "callers": callers, "ops": ops}


def gen_defect(rng, which):
    lim = 30
    if which == "abort_next":      # timed-out call, then any other call of the same coroutine
        res = [{"kind": "sock", "pre": 0, "eof": False, "limit_ms": lim},
               {"kind": rng.choice(["pipe_r", "sock"]), "pre": 4, "eof": False, "limit_ms": 0}]
        second = rng.choice([{"op": "read", "r": 1, "len": 3, "hold": False},
                             {"op": "recv", "r": 0, "len": 2, "hold": False}])
        callers = [{"co": True, "tok": 1000, "prog": [{"op": rng.choice(["recv", "read"]), "r": 0, "len": 3, "hold": False},
                                                       second]}]
        ops = [{"e": "start", "c": 0}]
    elif which == "stale_takes":   # timed-out call ends the coroutine; data fed later goes to the old request
        n = rng.randint(1, 6)
        ln = rng.randint(1, 5)
        res = [{"kind": "sock", "pre": 0, "eof": False, "limit_ms": lim}]
        callers = [{"co": True, "tok": 1000, "prog": [{"op": "recv", "r": 0, "len": ln, "hold": False}]}]
        ops = [{"e": "start", "c": 0}, {"e": "join", "c": 0}, {"e": "feed", "r": 0, "n": n, "wait": True}]
    elif which == "bad_fd":        # coroutine call on a descriptor number that is not open
        res = [{"kind": "closed", "pre": 0, "eof": False, "limit_ms": 0}]
        callers = [{"co": True, "tok": 1000, "prog": [{"op": rng.choice(["read", "recv", "write", "send"]), "r": 0,
                                                       "len": 3, "hold": False}]}]
        ops = [{"e": "start", "c": 0}]
    # a finished thread beside it now and then
    if rng.random() < 0.4:
        res.append({"kind": "pipe_r", "pre": 6, "eof": False, "limit_ms": 0})
        callers.append({"co": False, "tok": 1001, "prog": [{"op": "read", "r": len(res) - 1, "len": 4, "hold": False}]})
        ops = [{"e": "start", "c": 1}, {"e": "join", "c": 1}] + ops
    return {"loops": 1, "res": res, "callers": callers, "ops": ops}


def gen(rng, tier):
    n, nh, nd = {"quick": (40, 5, 2), "thorough": (500, 40, 12), "search": (150, 40, 4)}[tier]
    cases = [gen_normal(rng, big=(tier != "quick" and i % 3 == 0)) for i in range(n)]
    cases += [gen_hold_window(rng) for _ in range(nh)]
    cases += [gen_busy(rng) for _ in range({"quick": 8, "thorough": 40, "search": 20}[tier])]
    cases += [gen_defect(rng, "bad_fd") for _ in range(nd)]   # repaired: a normal case now
    for i in range(nd):
        for w in ("abort_next", "stale_takes"):
            cases.append(gen_defect(rng, w))
    return cases


def mutate(rng, case):
    out = []
    for _ in range(3):
        c = {k: (list(v) if isinstance(v, list) else v) for k, v in case.items()}
        ops = list(case["ops"])
        rng.shuffle(ops)
        c["ops"] = ops
        out.append(c)
    return out


# -------------------------------------------------------------------------------------- printing

def _rspec(s):
    return "{| rs_kind := %s; rs_pre := %s; rs_eof := %s; rs_timed := %s |}" % (
        KIND[s["kind"]], gz(s.get("pre", 0)), gbool(s.get("eof", False)), gbool(int(s.get("limit_ms", 0)) > 0))


def _item(it):
    return "{| c_op := %s; c_res := %d%%nat; c_len := %s; c_hold := %s |}" % (
        OP[it["op"]], int(it["r"]), gz(it["len"]), gbool(it.get("hold", False)))


def _cspec(c):
    return "{| cs_co := %s; cs_tok := %s; cs_prog := %s |}" % (
        gbool(c.get("co", False)), gz(c["tok"]), glist([_item(i) for i in c["prog"]]))


def _ev(e):
    k = e["e"]
    if k == "start":
        return "EStart %d%%nat" % int(e["c"])
    if k == "feed":
        return "EFeed %d%%nat %s %s" % (int(e["r"]), gz(e["n"]), gbool(e.get("wait", False)))
    if k == "reg":
        return "EReg %d%%nat" % int(e["c"])
    if k == "join":
        return "EJoin %d%%nat" % int(e["c"])
    if k == "complete":
        return "EComplete %d%%nat" % int(e["j"])
    if k == "timeout":
        return "ETimeout %d%%nat" % int(e["c"])
    return "ESleep"


def split_obs(case, obs):
    """(per-caller result lists, end marker) from the harness records"""
    n = len(case["callers"])
    per = [[] for _ in range(n)]
    end = None
    for o in obs:
        if isinstance(o, dict) and "end" in o:
            end = o
        elif isinstance(o, dict) and "c" in o:
            if 0 <= int(o["c"]) < n:
                per[int(o["c"])].append(o)
        elif isinstance(o, str):
            end = o
    return per, end


def _result(o):
    if "badret" in o:   # a failed call that did not return -1: matches no model result, accepted by no oracle clause
        return "RErr %s" % gz(-1000000 + int(o["badret"]))
    if "err" in o:
        return "RErr %s" % gz(o["err"])
    return "RRet %s %s" % (gz(o["ret"]), glist([gz(b) for b in o.get("bytes", [])]))


def _obs(case, obs):
    per, end = split_obs(case, obs)
    calls = glist([glist([_result(o) for o in sorted(p, key=lambda x: int(x["k"]))]) for p in per])
    if isinstance(end, dict) and end.get("end") == "ok":
        e = "EndOk %s %s" % (glist([gz(x) for x in end["left"]]), glist([glist([gz(b) for b in s]) for s in end["sink"]]))
    elif isinstance(end, dict) and end.get("end") == "stuck":
        e = "EndStuck"
    elif isinstance(end, str) and end.startswith("aborted:"):
        e = "EndAborted"
    elif isinstance(end, str) and end == "diverged":
        e = "EndStuck"
    else:  # harness trouble: can never match the model
        return "{| o_calls := [[RErr (-777)]]; o_end := EndStuck |}"
    return "{| o_calls := %s; o_end := %s |}" % (calls, e)


def term(case, obs):
    return "{| c_rs := %s; c_cs := %s; c_script := %s; c_impl := %s |}" % (
        glist([_rspec(s) for s in case["res"]]), glist([_cspec(c) for c in case["callers"]]),
        glist([_ev(e) for e in case["ops"]]), _obs(case, obs))


def nontrivial(case, obs, verdict):
    per, end = split_obs(case, obs)
    errs = any("err" in o for p in per for o in p)
    busy = sum(1 for c in case["callers"] if any("op" in it for it in c["prog"])) >= 2
    return errs or busy


def distribution(results):
    d = {"callers_thread": 0, "callers_co": 0, "calls": 0, "ret": 0, "err": 0, "held_calls": 0,
         "loops2": 0, "end_ok": 0, "end_aborted": 0, "end_stuck": 0, "notwf": 0, "defect_cases": 0}
    errnos = {}
    for c, o, v in results:
        if c.get("loops") == 2:
            d["loops2"] += 1
        for k in c["callers"]:
            d["callers_co" if k.get("co") else "callers_thread"] += 1
            for it in k["prog"]:
                d["calls"] += 1
                if it.get("hold") and not k.get("co"):
                    d["held_calls"] += 1
        per, end = split_obs(c, o)
        for p in per:
            for r in p:
                if "err" in r:
                    d["err"] += 1
                    errnos[str(r["err"])] = errnos.get(str(r["err"]), 0) + 1
                else:
                    d["ret"] += 1
        if isinstance(end, dict) and end.get("end") == "ok":
            d["end_ok"] += 1
        elif isinstance(end, str) and end.startswith("aborted"):
            d["end_aborted"] += 1
        else:
            d["end_stuck"] += 1
        if v["note"].startswith("notwf"):
            d["notwf"] += 1
        if v["note"].endswith("-defect"):
            d["defect_cases"] += 1
    d["errno"] = errnos
    return d


LEVEL_TEXT = ("Unbounded theorems about the Gallina model of the io_uring call path (token per caller, syscall_wait_table, "
              "slot registration and submission as two steps with a thread parked in between, completion dispatch by "
              "token, thread wake-up on its own slot, coroutine resume by token, coroutine time limit, mapping of the raw "
              "completion value): C27_holds_outside / C27_own_completion (any number of thread and coroutine callers with "
              "descriptors of their own and distinct tokens, every script, i.e. every interleaving of starts, feeds, "
              "releases of parked threads, kernel completions in any order and time-limit expiries: the run ends "
              "normally, every call handed back the answer of its own request - the next bytes of its own descriptor's "
              "stream, its own error with the matching errno - and no byte a descriptor delivered is missing), "
              "C27_call_spec (what the oracle accepts for one call), C27_errno_mapping (negative completion -> -1 with "
              "errno = -value, the completion value -1 = -EPERM included), C27_bad_fd_any_caller (a call on a descriptor number "
              "that is not open: -1/EBADF for coroutine and thread callers alike), and the refutation witness of the "
              "recorded finding, which the theorem excludes through no_defect (coroutine read on a socket with a receive "
              "time limit). The model is tied to the real runtime built with the io_uring feature on this "
              "kernel: the same cases run as real threads and real coroutines of a real EventLoops making hooked "
              "read/recv/write/send calls, and per-call return value, errno and buffer bytes plus the per-descriptor "
              "leftovers are compared with the model inside Coq.")
LEVEL_NOTE = ("PARTIAL. Trusted: Coq kernel + vm_compute; hand-written model validated on sampled cases only. The order in "
              "which the kernel completes requests is not observed on the real run: it is an input of the model "
              "(EComplete) and the theorem shows the observations do not depend on it, so the comparison is on "
              "order-independent observations only. Kernel results of the four calls on pipes, socketpairs and a closed "
              "descriptor number are a specification in the model. Token distinctness between concurrent callers is "
              "assumed (wf), not observed. Descriptors shared between callers, coroutines of foreign schedulers, "
              "coroutine migration between event loops, the other 20 io_uring-backed calls (same macros, not driven), "
              "the concurrent consumption of the completion queue by a second thread inside wait_just, memory safety of "
              "the buffer a timed-out request still points to: not covered. The finding timed_out_call_keeps_slot is "
              "recorded as known (refuted + holds_outside); coroutine_bad_fd_aborts and three more defects found here "
              "were repaired by fix: commits and the model describes the repaired code. No axioms (Print Assumptions: "
              "closed under the global context).")
TECHNIQUE = ("machine-checked proof in Coq 8.16 about a hand-written Gallina model + differential correspondence against "
             "the Rust code built with the io_uring feature")
