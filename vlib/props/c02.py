"""C02 — Pool worker count is exact and bounded."""
from .. import poolcases

ID = "C02"
PROPS = ["theories/Props/C02.vo"]
CASES_MODULE = "Cases.C02"
AREA = "pool"
ISOLATE = True
TIMEOUT_MS = 3000
LEVEL = "proof"
SHRINK_KEY = "ops"
SHARD_SIZE = 25
term = poolcases.term
nontrivial = poolcases.nontrivial
distribution = poolcases.distribution


def gen(rng, tier):
    n = {"quick": 120, "thorough": 1500, "search": 600}[tier]
    return [poolcases.gen_case(rng, npools=1 if i % 3 else 2) for i in range(n)]


def extra(tier, rng, build_cache, known):
    """The forced schedule the property asks for (hook H3): the task completes between the waiter's
    first result check and its registration. The waiter must return the task's own outcome promptly
    (well before its 1.5 s timeout). Real threads, one case per process."""
    from .. import core
    key = ((), False)
    if key not in build_cache:
        build_cache[key], _ = core.build_harness((), False)
    bodies = [[{"i": "return", "v": "7"}], [{"i": "panic", "k": "owned", "m": 3}],
              [{"i": "log", "k": 1}, {"i": "tick", "d": "1000"}, {"i": "return", "v": "2147483648"}]]
    if tier != "quick":
        bodies += [[{"i": "panic", "k": "static", "m": 9}], [{"i": "panic", "k": "other", "m": 0}], []]
    cases = []
    for i, b in enumerate(bodies):
        cases.append({"id": i, "clock": "0", "pools": [[0, 4, 0]], "origin": "extra", "kind": "forced_wait",
                      "ops": [{"op": "submit", "p": 0, "body": b, "prio": None},
                              {"op": "forced_wait", "p": 0, "t": 0}]})
    res = core.run_harness(build_cache[key], AREA, cases, isolate=True, timeout_ms=15000, jobs=4)
    viol, ok = [], 0
    for c in cases:
        r = res[c["id"]]
        fw = r[1] if len(r) > 1 and isinstance(r[1], dict) else None
        b = c["ops"][0]["body"]
        last = b[-1] if b else {"i": "return", "v": "0"}
        if last["i"] == "return":
            want = {"val": {"ok": last["v"]}}
        elif last["i"] == "panic":
            want = {"val": {"err": "nomsg" if last["k"] == "other" else {"k": last["m"]}}}
        else:
            want = {"val": {"ok": "0"}}
        if fw is None or not fw.get("h3"):
            viol.append({"case": c, "obs": r, "note": "forced schedule not reached"})
        elif fw["forced_wait"] != want:
            viol.append({"case": c, "obs": r, "note": "the wait did not return the task's own outcome"})
        elif not fw.get("prompt"):
            viol.append({"case": c, "obs": r, "tags": ["lost_wakeup_check_register"],
                         "note": "the task completed between check and registration and the waiter slept %s ms"
                                 % fw.get("elapsed_ms")})
        else:
            ok += 1
    return {"info": {"forced_schedule_runs": len(cases), "forced_schedule_prompt": ok}, "violations": viol}
