"""C02 — Joining a task returns that task's own result once it finishes."""
from .. import poolcases, facadecases, e2e

ID = "C02"
PROPS = ["theories/Props/C02.vo", "theories/Props/C02Facade.vo"]
# Cases.C02Facade re-exports Cases.C02 and judges every kind of C02 case (pool history, core join
# handle, facade)
CASES_MODULE = "Cases.C02Facade"
# cases with area "e2e" (facade, harness-e2e) are built and run by vlib/e2e.py, also from corpus/replay
e2e.install()
AREA = "pool"
ISOLATE = True
TIMEOUT_MS = 3000
LEVEL = "proof"
SHRINK_KEY = "ops"
SHARD_SIZE = 25
from ..core import gz, glist, gbool

NOW = 1000
DL = {"zero": 0, "past": 999, "now": 1000, "soon": 1000 + 30 * 10**6, "far": 1000 + 3 * 10**9, "max": 2**64 - 1}


def join_case(rng):
    """tasks submitted through EventLoops::submit_task and joined through their JoinHandle from a plain
    thread: deadlines zero / past / now / soon / far / none, before and after the task finishes"""
    tasks = []
    for _ in range(rng.randint(2, 5)):
        k = rng.random()
        if k < 0.6:
            out = {"k": "value", "v": str(rng.choice([0, 1, 7, 2**31, 2**62]))}
        elif k < 0.75:
            out = {"k": "static", "m": rng.randrange(100)}
        elif k < 0.9:
            out = {"k": "owned", "m": rng.randrange(100)}
        else:
            out = {"k": "other", "m": 0}
        late = rng.random() < 0.4
        joins = []
        if late:
            for _ in range(rng.randint(0, 2)):       # while it runs: these may only time out
                joins.append({"api": rng.choice(["at", "dur"]), "dl": rng.choice(["zero", "past", "now", "soon"])})
            joins.append({"api": rng.choice(["at", "dur", "join"]), "dl": rng.choice(["far", "max"])})
        else:
            joins.append({"api": rng.choice(["at", "at", "dur"]), "dl": rng.choice(["zero", "past", "now", "soon", "far", "max"])})
        for j in joins:
            if j["api"] == "join":
                j["dl"] = "max"
        for _ in range(rng.randint(0, 1)):            # the result has been handed out: only a timeout is left
            joins.append({"api": "at", "dl": rng.choice(["zero", "now", "soon"])})
        tasks.append({"out": out, "late_ms": 250 if late else 0, "joins": joins})
    return {"area": "joinh", "isolate": True, "timeout_ms": 30000, "tasks": tasks, "kind": "join_handle", "ops": []}


def _jres(r):
    if isinstance(r, dict) and "val" in r:
        return "(JHVal %s)" % poolcases.g_tres(r["val"])
    return {"timeout": "JHTimedOut", "invalid": "JHInvalid"}.get(r, "JHInvalid")


def _expected(out):
    if out["k"] == "value":
        return "(TOk %s)" % gz(out["v"])
    if out["k"] == "other":
        return "(TErr (TM MNoMsg))"
    return "(TErr (TM (MStr %s)))" % gz(out["m"])


def term(case, obs):
    if case.get("area") == e2e.AREA:
        return facadecases.term(case, obs)
    if case.get("area") != "joinh":
        return "(of_pool %s)" % poolcases.term(case, obs)
    tasks = []
    for i, t in enumerate(case["tasks"]):
        o = obs[i] if i < len(obs) and isinstance(obs[i], dict) else {"joins": []}
        js = []
        for k, j in enumerate(t["joins"]):
            jo = o["joins"][k] if k < len(o["joins"]) else {"r": "invalid", "before": False, "after": False}
            fin = "(Some 0)" if jo["before"] else "None"
            amb = (not jo["before"]) and jo["after"]
            js.append("{| jo_join := {| jj_deadline := %s; jj_now := %s; jj_fin_at := %s |}; jo_ambiguous := %s; jo_impl := %s |}"
                      % (gz(DL[j["dl"]]), gz(NOW), fin, gbool(amb), _jres(jo["r"])))
        tasks.append("{| jt_res := %s; jt_joins := %s |}" % (_expected(t["out"]), glist(js)))
    return "(of_join {| jc_tasks := %s |})" % glist(tasks)


def nontrivial(case, obs, verdict):
    if case.get("area") in ("joinh", e2e.AREA):
        return bool(obs)
    return poolcases.nontrivial(case, obs, verdict)


def distribution(results):
    d = poolcases.distribution([(c, o, v) for c, o, v in results if c.get("area") not in ("joinh", e2e.AREA)])
    jc = [(c, o, v) for c, o, v in results if c.get("area") == "joinh"]
    d["join_handle_cases"] = len(jc)
    d["join_handle_joins"] = sum(len(t["joins"]) for c, o, v in jc for t in c["tasks"])
    d["join_deadline_kinds"] = {}
    for c, o, v in jc:
        for t in c["tasks"]:
            for j in t["joins"]:
                key = j["api"] + ":" + j["dl"]
                d["join_deadline_kinds"][key] = d["join_deadline_kinds"].get(key, 0) + 1
    return d


def gen(rng, tier):
    n = {"quick": 120, "thorough": 1500, "search": 600}[tier]
    cases = [poolcases.gen_case(rng, npools=1 if i % 3 else 2) for i in range(n)]
    cases += [join_case(rng) for _ in range({"quick": 8, "thorough": 60, "search": 8}[tier])]
    return cases


def extra(tier, rng, build_cache, known):
    """Supporting runs: the forced schedule through the pause point in wait_task_result, and the
    user-facing layer (facade crate + cdylib C ABI) through harness-e2e."""
    a = forced_wait_extra(tier, rng, build_cache, known)
    b = facade_extra(tier, rng, build_cache, known)
    c = co_join_extra(tier, rng, build_cache, known)
    info = dict(a.get("info", {}))
    info.update(b.get("info", {}))
    info.update(c.get("info", {}))
    return {"info": info, "violations": a.get("violations", []) + b.get("violations", []) + c.get("violations", []),
            "known_reproduced": a.get("known_reproduced", []) + b.get("known_reproduced", [])}


def co_join_extra(tier, rng, build_cache, known):
    """A wait made FROM a task (a task joining another task of its pool): on a coroutine
    wait_task_result runs queued tasks inline until the wanted result is there or the time is up.
    Real pool, real clock, one case per process; judged inside Coq (Cases/CoWait.v, model Sched/CoWait.v)."""
    from .. import core
    key = ((), False)
    if key not in build_cache:
        build_cache[key], _ = core.build_harness((), False)
    n = {"quick": 14, "thorough": 120, "search": 40}[tier]

    def out():
        k = rng.random()
        if k < 0.6:
            return {"k": "value", "v": str(rng.choice([0, 1, 7, 2**31, 2**62]))}
        if k < 0.8:
            return {"k": "static", "m": rng.randrange(100)}
        if k < 0.95:
            return {"k": "owned", "m": rng.randrange(100)}
        return {"k": "other", "m": 0}
    cases = []
    for i in range(n):
        queue = [out() for _ in range(rng.randint(1, 5))]
        fin = [out() for _ in range(rng.randint(0, 2))]
        k = rng.random()
        if fin and k < 0.25:
            target = [0, rng.randrange(len(fin))]
        elif k < 0.9:
            target = [1, rng.randrange(len(queue))]
        else:
            target = [2, 0]
        zero = rng.random() < 0.35
        cases.append({"id": i, "clock": "0", "pools": [], "origin": "extra", "kind": "co_join",
                      "ops": [{"op": "co_join", "fin": fin, "queue": queue, "target": target,
                               "wait_ms": 0 if zero else (40 if target[0] == 2 else 1500)}]})
    res = core.run_harness(build_cache[key], AREA, cases, isolate=True, timeout_ms=30000, jobs=4)
    terms = []
    for c in cases:
        o = c["ops"][0]
        r = res[c["id"]]
        v = r[0].get("co_join") if r and isinstance(r[0], dict) else {"wait": "err", "ran": []}
        w = v.get("wait")
        impl = "(CWVal %s)" % poolcases.g_tres(w["val"]) if isinstance(w, dict) else "CWTimedOut"
        cq = glist(["(%dnat, %s)" % (i, _expected(x)) for i, x in enumerate(o["queue"])]).replace("nat,", "%nat,")
        cf = glist(["(%dnat, %s)" % (100 + i, _expected(x)) for i, x in enumerate(o["fin"])]).replace("nat,", "%nat,")
        tgt = {0: 100 + o["target"][1], 1: o["target"][1], 2: 9999}[o["target"][0]]
        fuel = 1 if o["wait_ms"] == 0 else len(o["queue"]) + 2
        terms.append("{| cq := %s; cfin := %s; ctarget := %d%%nat; cimpl := %s; cran := %s; cfuel := %d%%nat |}"
                     % (cq, cf, tgt, impl, glist(["%d%%nat" % int(x) for x in v.get("ran", [])]), fuel))
    verdicts = core.coq_eval(ID + "W", "Cases.CoWait", terms, shard_size=40)
    viol = []
    for c, vd in zip(cases, verdicts):
        if not (vd["corr"] and vd["prop"]):
            viol.append({"case": c, "obs": res[c["id"]], "tags": ["co_join"],
                         "note": "a wait made from inside a task: %s" % ("the wanted task's own outcome was not returned"
                                 if not vd["prop"] else "the real pool and the model disagree")})
    return {"info": {"co_join_cases": len(cases), "co_join_agree": sum(1 for v in verdicts if v["corr"] and v["prop"]),
                     "co_join_zero_wait": sum(1 for c in cases if c["ops"][0]["wait_ms"] == 0)},
            "violations": viol}


def facade_extra(tier, rng, build_cache, known):
    """C02 where users meet it: open_coroutine::JoinHandle<R>::{join, timeout_join, any_timeout_join,
    any_join, try_cancel} over task_crate / task_join / task_timeout_join / task_cancel of the cdylib.
    Built from $VERIF_REPO on every run, one process per case, real time; judged inside Coq
    (Cases/C02Facade.v) against the model of the ABI mapping (Sched/Facade.v)."""
    import time
    from ..driver import is_known
    t0 = time.time()
    cases = facadecases.gen(rng, tier)
    # information only: does std::thread::sleep inside a task leave the event loop free?
    probe = {"kind": "sleepers", "std_probe": True, "sleepers": [{"how": "stdsleep", "ms": 300}] * 3,
             "area": e2e.AREA, "isolate": True, "timeout_ms": 40000, "ops": [], "origin": "extra"}
    results, bsec = facadecases.run_and_judge(cases + [probe], ID, CASES_MODULE)
    viol, reproduced, tags = [], [], {}
    kinds = {}
    for c, o, v in results:
        if c.get("std_probe"):
            continue
        kinds[c["kind"]] = kinds.get(c["kind"], 0) + 1
        for t in v["tags"]:
            tags[t] = tags.get(t, 0) + 1
        if not v["prop"]:
            k = is_known(v, known)
            if k is not None:
                reproduced.append(k)
            else:
                viol.append({"case": c, "obs": o, "tags": v["tags"],
                             "note": "facade: the call did not return the task's own outcome / timed out for a finished task " + v["note"]})
        elif not v["corr"]:
            viol.append({"case": c, "obs": o, "tags": v["tags"],
                         "note": "facade: model of the ABI mapping and implementation disagree " + v["note"]})
    po = [o for c, o, v in results if c.get("std_probe")]
    std_overlap = None
    if po and po[0] and isinstance(po[0][-1], dict) and "sleepers" in po[0][-1]:
        std_overlap = facadecases.sleeps_overlap(po[0][-1])
    info = {"facade_cases": len(results) - 1, "facade_case_kinds": kinds, "facade_tags": tags,
            "facade_calls_judged": sum(len(t.get("joins", [])) for c, o, v in results for t in c.get("tasks", [])),
            "facade_build_s": round(bsec, 2), "facade_wall_s": round(time.time() - t0, 2), "facade_violations": len(viol),
            "std_thread_sleep_in_task_leaves_loop_free": std_overlap}
    return {"info": info, "violations": viol, "known_reproduced": reproduced}


def forced_wait_extra(tier, rng, build_cache, known):
    """The forced schedule the property asks for (hook H3): the task completes between the waiter's
    first result check and its registration. The waiter must return the task's own outcome promptly
    (well before its 1.5 s timeout). Real threads, one case per process."""
    from .. import core
    key = ((), False)
    if key not in build_cache:
        build_cache[key], _ = core.build_harness((), False)
    bodies = [[{"i": "return", "v": "7"}], [{"i": "panic", "k": "owned", "m": 3}],
              [{"i": "log", "k": 1}, {"i": "tick", "d": "1000"}, {"i": "return", "v": "2147483648"}]]
    if tier != "quick":
        bodies += [[{"i": "panic", "k": "static", "m": 9}], [{"i": "panic", "k": "other", "m": 0}], []]
    cases = []
    for i, b in enumerate(bodies):
        cases.append({"id": i, "clock": "0", "pools": [[0, 4, 0]], "origin": "extra", "kind": "forced_wait",
                      "ops": [{"op": "submit", "p": 0, "body": b, "prio": None},
                              {"op": "forced_wait", "p": 0, "t": 0}]})
    res = core.run_harness(build_cache[key], AREA, cases, isolate=True, timeout_ms=15000, jobs=4)
    viol, ok = [], 0
    for c in cases:
        r = res[c["id"]]
        fw = r[1] if len(r) > 1 and isinstance(r[1], dict) else None
        b = c["ops"][0]["body"]
        last = b[-1] if b else {"i": "return", "v": "0"}
        if last["i"] == "return":
            want = {"val": {"ok": last["v"]}}
        elif last["i"] == "panic":
            want = {"val": {"err": "nomsg" if last["k"] == "other" else {"k": last["m"]}}}
        else:
            want = {"val": {"ok": "0"}}
        if fw is None or not fw.get("h3"):
            viol.append({"case": c, "obs": r, "note": "forced schedule not reached"})
        elif fw["forced_wait"] != want:
            viol.append({"case": c, "obs": r, "note": "the wait did not return the task's own outcome"})
        elif not fw.get("prompt"):
            viol.append({"case": c, "obs": r, "tags": ["lost_wakeup_check_register"],
                         "note": "the task completed between check and registration and the waiter slept %s ms"
                                 % fw.get("elapsed_ms")})
        else:
            ok += 1
    return {"info": {"forced_schedule_runs": len(cases), "forced_schedule_prompt": ok}, "violations": viol}


PINNED = ['C02_refuted_result_in_stealing_pool', 'C02_no_lost_wakeup', 'C02_prompt', 'C02_own_result_protocol', 'C02_woken_means_result', 'C02_refuted_old_protocol', 'C02_single_pool', 'C02_finished_task_never_times_out', 'C02_timeout_only_without_result', 'C02_join_finished_returns_own', 'C02_join_timeout_only_if_unfinished', 'C02_join_expired_deadline_still_returns', 'C02_join_result_handed_out_once', 'C02_facade_finished_returns_own', 'C02_facade_expired_deadline_still_returns', 'C02_facade_timeout_only_if_unfinished', 'C02_facade_calls_are_safe', 'C02_facade_handed_out_once', 'C02_facade_oracle_accepts_model', 'C02_facade_limit_address_overflow_aborts', 'C02_facade_limit_errors_conflated', 'C02_facade_limit_payload_not_injective', 'C02_facade_never_none', 'C02_facade_refuted_old_string_payload', 'C02_facade_refuted_old_duration_overflow', 'C02_facade_old_agrees_elsewhere', 'C02_facade_refuted_old_any_zero_duration', 'C02_facade_any_value_is_a_members', 'C02_facade_any_returns_earliest', 'C02_facade_refuted_any_join_drops_panicked_task', 'C02_facade_any_holds_outside', 'C02_co_wait_returns_own_result', 'C02_co_wait_finished_runs_nothing', 'C02_co_wait_timeout_only_if_absent']
LEVEL_TEXT = "Four layers. (4, user-facing) open_coroutine::JoinHandle<R> over the C ABI of the cdylib over the core join handle: for EVERY outcome of the task (any returned value; panic with a literal, a formatted, a non-string payload), every call (join, timeout_join with any duration incl. zero and Duration::MAX) and every clock, a task finished by the deadline yields exactly its own value or its panic message, a failure is reported only if it had not finished, the boxed result is unboxed at most once and never from a wrong address; what the ABI cannot carry is stated (addresses above i64::MAX abort, task errors/timeouts/invalid handles are all -1, non-string payloads get a fixed text); any_timeout_join/any_join return a value of a member that finished (the earliest), with the KNOWN finding that a panicked member's outcome is dropped (refuted with witness, holds outside). Tied to the repository by harness-e2e: a binary that links only the open-coroutine crate, one process per case, real time, judged in Coq. (1)-(3): (1) Pool model: theorem over ALL well-formed single-pool histories that every wait/take returns the task's own outcome (value or panic message), or the cancel/stop error where that applies, hands a result out once and reports 'no result' only when there is none. (2) The wait/notify protocol of wait_task_result against try_run's insert+notify as a small-step model, one step per access to the shared maps: for EVERY interleaving of waiter, completer and timeout (finite reachable set computed and lifted to all schedules) no lost wake-up, promptness (once the task completed an unreturned waiter can proceed without its timeout), a result only after it was produced and once, a woken waiter finds the result, and a task that finished before the wait began never yields a timeout whatever the wait time; the protocol before the repair is refuted with the 4-step schedule. (3) JoinHandle deadline arithmetic: a finished task's join returns its own outcome for every deadline including zero and expired ones, a timeout only if the task had not finished by the deadline, the result is handed out once. With two loops/pools the property is REFUTED (result stored in the stealing pool), a recorded finding. Tied to /repo by pool histories compared in Coq, by the forced schedule through the pause point in wait_task_result (real threads: completion between check and registration), and by real EventLoops/JoinHandle joins with zero/past/now/soon/far/unlimited deadlines."
LEVEL_NOTE = "Facade layer: the model (Sched/Facade.v) is a hand transcription of crate_task/task_main, JoinHandle::join/timeout_join/any_timeout_join (open-coroutine/src/lib.rs) and task_join/task_timeout_join (hook/src/lib.rs) as function-level summaries on top of jh_step; values and messages are their Debug/Display renderings; the address of the boxed result is not observable (theorems hold for every address in 1..i64::MAX); any_timeout_join is modelled by its answer (earliest value-yielding member), not by its 10 ms polling loop, so cases where two members finish within 200 ms of each other or of the deadline are judged by the oracle only (tag facade_ambiguous_timing / ac_ambiguous); real time with generous margins (a publish lag above 0.5 s or a call returning 2 s after the task ended counts as a failure); default features only (no preemptive, no io_uring); one event loop. Trusted: Coq kernel + vm_compute; hand transcription of co_pool/mod.rs, task.rs and the parts of scheduler.rs it uses (Sched/Pool.v over Sched/Sched.v, Coroutine/Co.v, Queue/OWS.v), validated on the sampled histories only; one scheduling thread at a time (the pool's scheduling half is !Sync), virtual clock (hooks H1/H2), DashMap/DashSet as association lists, process-global task/coroutine queues and cancel sets modelled as shared state of all pools. The single-pool theorems assume wf_pool1: ONE pool with min_size 0, ANY keep_alive_time, max_size >= 1, a clock that does not reach u64::MAX while a keep-alive is pending (for C01/C11), operations naming submitted tasks, task bodies that keep the coroutine API contract (no self-cancel, syscall states well bracketed), clock steps not below the model clock; the evidence counts how many generated histories satisfy it (tag wf_pool1). Histories with two pools, or with a minimum size, are covered by the correspondence and the oracle only. No axioms (every theorem closed under the global context)."
TECHNIQUE = 'Coq proof (simulation invariant over all histories of a Gallina pool model; finite-state closure lifted to all schedules for the wait/notify and signal protocols) + differential correspondence inside Coq + forced real-thread schedules through cfg-guarded pause points'

LEVEL_TEXT += (' A wait made FROM a task (the caller is a coroutine of the pool) does not block: it runs queued tasks inline until the wanted result '
               'is there or its time is up; model Sched/CoWait.v with theorems for every queue and every round budget (own result returned having run exactly '
               'the tasks queued in front, a finished result returned without running anything, timeout only if the task is neither finished nor queued), '
               'tied to the code by real pools judged inside Coq (Cases/CoWait.v).')
