"""C10 — Scheduler completes each coroutine once and honours delays and cancels."""
from .. import schedcases

ID = "C10"
PROPS = ["theories/Props/C10.vo"]
CASES_MODULE = "Cases.C10"
AREA = "sched"
ISOLATE = True          # the ready queue and the cancel set are process-global
TIMEOUT_MS = 4000
LEVEL = "proof"
SHRINK_KEY = "ops"
SHARD_SIZE = 30
RULE = ("3-25 scheduler calls (submit with priority, timed and untimed passes, clock steps, try_resume, cancel) over "
        "1-8 coroutine bodies (suspend/delay/until/tick/self-cancel/hooked-sleep pattern/return/panic), virtual clock, "
        "one recording listener per coroutine; wake-up times are pairwise distinct within a case; non-trivial = the "
        "model run shows at least two of: delay, wake from the suspend heap, syscall timeout, syscall callback, "
        "self-cancel, deadline cut, several results in one pass, panic; distinct = distinct op list")
TRUSTED = ["BinaryHeap order among equal wake-up times is not modelled (cases keep them distinct)",
           "DashMap/DashSet as plain maps; one scheduler per process (handle 0 of the global coroutine queue)"]
ASSUMPTIONS = ["coroutine ids are submission indices (the harness names coroutines, ids are hashes of the names)",
               "virtual clock (hook H1): time moves only by Clock ops and Tick instructions"]
term = schedcases.term
nontrivial = schedcases.nontrivial
distribution = schedcases.distribution


def gen(rng, tier):
    n = {"quick": 150, "thorough": 2000, "search": 800}[tier]
    return [schedcases.gen_case(rng) for _ in range(n)]

PINNED = ["C10_holds", "C10_holds_any_listeners", "C10_pass_terminates"]
LEVEL_TEXT = ("Unbounded theorem over ALL well-formed scheduler histories (any number of coroutines, bodies, priorities, "
              "pass deadlines, clock steps, cancels, try_resume calls): results reported exactly once by the pass in which "
              "the coroutine finished, no resumption before a requested wake-up time, nothing runnable or overdue left by "
              "a pass that was not cut by its deadline, a cancelled coroutine never runs again and nobody else is "
              "affected; plus termination of every pass. Proved by a lock-step simulation between the model scheduler "
              "(generic do_schedule over the proved queue and coroutine models) and the specification tracker. Tied to "
              "/repo by histories on a real Scheduler with a virtual clock, one per child process.")
LEVEL_NOTE = ("Trusted: Coq kernel + vm_compute; hand transcription of scheduler.rs (Sched.v) validated on sampled histories "
              "only; BinaryHeap order among equal wake-up times not modelled (cases keep them distinct; the theorem does "
              "not need distinctness); DashMap/DashSet as maps; wf premise: bodies keep the API contract (end/cancel in "
              "state Running, syscall-state yields only in Suspend(t)), Clock ops never go below the model clock, all "
              "values <= u64::MAX. Syscall-suspend heap entries left behind by try_resume can time a later syscall wait "
              "out early: modelled, outside this property's wake-up clause (which is about delay/until). No axioms.")
TECHNIQUE = "Coq proof (simulation invariant over all histories of a Gallina scheduler model) + differential correspondence inside Coq"
