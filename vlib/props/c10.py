"""C10 — Scheduler completes each coroutine once and honours delays and cancels."""
from .. import schedcases

ID = "C10"
PROPS = ["theories/Props/C10.vo"]
CASES_MODULE = "Cases.C10"
AREA = "sched"
ISOLATE = True          # the ready queue and the cancel set are process-global
TIMEOUT_MS = 4000
LEVEL = "proof"
SHRINK_KEY = "ops"
SHARD_SIZE = 30
RULE = ("3-25 scheduler calls (submit with priority, timed and untimed passes, clock steps, try_resume, cancel) over "
        "1-8 coroutine bodies (suspend/delay/until/tick/self-cancel/hooked-sleep pattern/return/panic), virtual clock, "
        "one recording listener per coroutine; wake-up times are pairwise distinct within a case; non-trivial = the "
        "model run shows at least two of: delay, wake from the suspend heap, syscall timeout, syscall callback, "
        "self-cancel, deadline cut, several results in one pass, panic; distinct = distinct op list")
TRUSTED = ["BinaryHeap order among equal wake-up times is not modelled (cases keep them distinct)",
           "DashMap/DashSet as plain maps; one scheduler per process (handle 0 of the global coroutine queue)"]
ASSUMPTIONS = ["coroutine ids are submission indices (the harness names coroutines, ids are hashes of the names)",
               "virtual clock (hook H1): time moves only by Clock ops and Tick instructions"]
term = schedcases.term
nontrivial = schedcases.nontrivial
distribution = schedcases.distribution


def gen(rng, tier):
    n = {"quick": 150, "thorough": 2000, "search": 800}[tier]
    return [schedcases.gen_case(rng) for _ in range(n)]
