"""C06 — Work in the shared queue is not starved by local work."""
from .. import queues

ID = "C06"
PROPS = ["theories/Props/C06.vo"]
CASES_MODULE = "Cases.C06"
AREA = "ows"
ISOLATE = True
TIMEOUT_MS = 2500
LEVEL = "proof"
SHRINK_KEY = "ops"
RULE = ("sequential histories over 1-4 handles where one handle pops 130-200 times without running empty while items wait in the shared queue, plus idle pops after steals and random histories; "
        "every call under a 2.5 s watchdog (expiry = observation `diverged`); non-trivial = the model's run "
        "overflowed, stole, consulted the shared queue on a tick, or popped idle; distinct = distinct op list")
term = queues.term
nontrivial = queues.nontrivial
distribution = queues.distribution


def gen(rng, tier):
    n = {"quick": 90, "thorough": 900, "search": 150}[tier]
    cases = []
    for i in range(n):
        k = i % 4
        if k == 3:
            cases.append(queues.thief_starvation(rng))
        elif k == 0:
            cases.append(queues.starvation(rng))
        elif k == 1:
            cases.append(queues.fill_steal_fill(rng))
        else:
            cases.append(queues.random_history(rng, rng.randint(5, 40), drain=True))
    return cases

PINNED = ['C06_holds', 'C06_wf_needed', 'C06_tick_window']
LEVEL_TEXT = 'Theorem over all well-formed histories: with the shared queue non-empty a handle is served from it within 61 consecutive pops (invariant starve <= tick mod 61, including the u32 wrap), an idle pop implies nothing is pending anywhere; plus the stand-alone tick-window theorem for every 32-bit start value. Tied to the code by 130-200-pop histories and idle pops after steals.'
LEVEL_NOTE = ("Trusted: Coq kernel + vm_compute; hand transcription of ordered_work_steal.rs (model OWS.v) validated on the "
              "sampled histories only; st3 rings / crossbeam injectors / skiplist modelled as FIFO lists and a sorted map; "
              "sequential histories (one call at a time); the steal start index is an input via the build.rs import "
              "rewrite. The plain WorkStealQueue is not modelled. No axioms (closed under the global context).")
TECHNIQUE = "Coq proof (invariants over all histories of a Gallina model) + lockstep differential correspondence inside Coq"
