"""C06 — Work in the shared queue is not starved by local work."""
from .. import queues, pwsq

ID = "C06"
PROPS = ["theories/Props/C06.vo", "theories/Props/PWS.vo"]
CASES_MODULE = "Cases.C06"
AREA = "ows"
ISOLATE = True
TIMEOUT_MS = 2500
LEVEL = "proof"
SHRINK_KEY = "ops"
RULE = ("sequential histories over 1-4 handles where one handle pops 130-200 times without running empty while items wait in the shared queue, plus idle pops after steals and random histories; "
        "every call under a 2.5 s watchdog (expiry = observation `diverged`); non-trivial = the model's run "
        "overflowed, stole, consulted the shared queue on a tick, or popped idle; distinct = distinct op list")


def term(case, obs):
    if pwsq.is_plain(case):
        return "(@inr qcase pcase %s)" % pwsq.term(case, obs)
    return "(@inl qcase pcase %s)" % queues.term(case, obs)


def nontrivial(case, obs, verdict):
    return pwsq.nontrivial(case, obs, verdict) if pwsq.is_plain(case) else queues.nontrivial(case, obs, verdict)


def distribution(results):
    d = queues.distribution([r for r in results if not pwsq.is_plain(r[0])])
    d["plain_queue"] = pwsq.distribution([r for r in results if pwsq.is_plain(r[0])])
    return d


def gen(rng, tier):
    n = {"quick": 90, "thorough": 900, "search": 150}[tier]
    cases = []
    for i in range(n):
        k = i % 4
        if k == 3:
            cases.append(queues.thief_starvation(rng))
        elif k == 0:
            cases.append(queues.starvation(rng))
        elif k == 1:
            cases.append(queues.fill_steal_fill(rng))
        else:
            cases.append(queues.random_history(rng, rng.randint(5, 40), drain=True))
    cases += pwsq.gen_c06(rng, tier)
    return cases

PINNED = ['C06_holds', 'C06_wf_needed', 'C06_tick_window', 'PWS_C06_holds', 'PWS_C06_wf_needed', 'PWS_C06_idle_pop_means_empty', 'PWS_C06_tick_pop_serves_shared', 'PWS_C06_tick_window']
LEVEL_TEXT = 'Theorem over all well-formed histories: with the shared queue non-empty a handle is served from it within 61 consecutive pops (invariant starve <= tick mod 61, including the u32 wrap), an idle pop implies nothing is pending anywhere; plus the stand-alone tick-window theorem for every 32-bit start value. Tied to the code by 130-200-pop histories and idle pops after steals.'
LEVEL_NOTE = ("Trusted: Coq kernel + vm_compute; hand transcription of ordered_work_steal.rs (model OWS.v) validated on the "
              "sampled histories only; st3 rings / crossbeam injectors / skiplist modelled as FIFO lists and a sorted map; "
              "sequential histories (one call at a time); the steal start index is an input via the build.rs import "
              "rewrite. No axioms (closed under the global context).")
TECHNIQUE = "Coq proof (invariants over all histories of a Gallina model) + lockstep differential correspondence inside Coq"

LEVEL_TEXT += ' The plain WorkStealQueue (Queue/PWS.v) has the corresponding theorems: an idle local pop means nothing is pending anywhere, the 61st-pop tick serves the shared queue first, and every window of 61 pops contains a tick.'
