"""C06 — Work in the shared queue is not starved by local work."""
from .. import queues

ID = "C06"
PROPS = ["theories/Props/C06.vo"]
CASES_MODULE = "Cases.C06"
AREA = "ows"
ISOLATE = True
TIMEOUT_MS = 2500
LEVEL = "proof"
SHRINK_KEY = "ops"
RULE = ("sequential histories over 1-4 handles where one handle pops 130-200 times without running empty while items wait in the shared queue, plus idle pops after steals and random histories; "
        "every call under a 2.5 s watchdog (expiry = observation `diverged`); non-trivial = the model's run "
        "overflowed, stole, consulted the shared queue on a tick, or popped idle; distinct = distinct op list")
term = queues.term
nontrivial = queues.nontrivial
distribution = queues.distribution


def gen(rng, tier):
    n = {"quick": 90, "thorough": 900, "search": 400}[tier]
    cases = []
    for i in range(n):
        k = i % 3
        if k == 0:
            cases.append(queues.starvation(rng))
        elif k == 1:
            cases.append(queues.fill_steal_fill(rng))
        else:
            cases.append(queues.random_history(rng, rng.randint(5, 40), drain=True))
    return cases
