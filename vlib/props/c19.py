"""C19 — Socket timeout options are tracked per live socket without crashing."""
from ..core import gz, glist

ID = "C19"
PROPS = ["theories/Props/C19.vo"]
PINNED = ["C19_holds", "C19_no_abort", "C19_limit_current", "C19_oracle_sound",
          "C19_fresh_socket_unlimited", "C19_negative_sec_refuted_before_repair",
          "C19_negative_sec_times_out_at_once", "C19_limit_on_closed_fd_refuted_before_repair"]
CASES_MODULE = "Cases.C19"
HEADER = "From OCV Require Import Syscall.SockOpt Syscall.SockOptOracle."
AREA = "sockopt"
ISOLATE = True          # process-global caches; panics inside extern "C" functions abort
TIMEOUT_MS = 20000
LEVEL = "proof"
SHRINK_KEY = "ops"
RULE = ("histories of Socket | SetOpt fd which tv | Limit fd dir | KGet fd which | Close fd (3-14 ops, up to 4 "
        "descriptors, one child process each) built from patterns: set after I/O, set twice, both directions, "
        "close then reuse of the number, zero = unlimited, saturating seconds, negative tv_sec (zero timeout) "
        "followed by lookups and resets, lookups on closed descriptor numbers, plus a stream of rejected calls "
        "(EDOM values, setsockopt/close/getsockopt on dead descriptors); non-trivial = the model's run overwrote a "
        "cache entry, evicted one at close, saturated, cached a zero timeout, or a descriptor number was handed out "
        "twice; distinct = distinct op list")
TRUSTED = ["kernel socket option table modelled (lowest-free descriptor numbers, SO_xxxTIMEO stored as given for "
           "tick-exact values, negative tv_sec stored as a zero timeout that reads back as (0, 0), out-of-range "
           "tv_usec rejected); validated by raw "
           "getsockopt observations (KGet) in every run",
           "harness canonicalises descriptor numbers as (real fd - lowest free fd after runtime init)"]
ASSUMPTIONS = ["option values are whole multiples of 20 ms (exact in kernel ticks for HZ 100/250/300/1000) and "
               "tv_sec < 2^50, so the value read back equals the value set; for other values the cache holds "
               "the caller's value while the kernel rounds up to its tick (sub-tick difference, outside the model)",
               "hooked I/O is represented by recv_time_limit / send_time_limit, the call every hooked I/O loop "
               "makes to obtain its limit; that the loops, given the limit of a zero timeout (1 ns), make one "
               "attempt and return -1/EAGAIN at the first would-block is covered by the C16/C18 theorems (all "
               "limits >= 1) and was observed once on real sockets, not by this harness",
               "a zero timeout is known only through the hooked setsockopt: getsockopt reports it as (0, 0), so a "
               "socket whose negative timeout was set before its first hooked use, without the hook, is read as "
               "unlimited (outside the model: every SetOpt is the hooked one)",
               "single caller thread (the caches are DashMaps; concurrent first use is not modelled)"]

TICK = 20000
SECS = [0, 1, 7, 2**31 - 1, 18446744073, 18446744074, 2**40, 2**50 - 1]
USECS = [0, TICK, 5 * TICK, 500000, 980000]
WHICH = ["rcv", "snd"]


class Hist:
    def __init__(self, rng):
        self.rng = rng
        self.live = []
        self.ops = []
        self.dead = []

    def socket(self):
        n = 0
        while n in self.live:
            n += 1
        self.live.append(n)
        self.ops.append({"op": "socket"})
        return n

    def tv(self):
        r = self.rng
        k = r.random()
        if k < 0.12:
            return 0, 0
        if k < 0.20:    # negative tv_sec: Linux stores a zero timeout
            return r.choice([-1, -7, -2**63]), r.choice(USECS)
        if k < 0.55:
            return r.choice(SECS), r.choice(USECS)
        if k < 0.8:
            return r.randint(0, 100), r.randrange(0, 50) * TICK
        return r.randrange(0, 2**50), r.randrange(0, 50) * TICK

    def setopt(self, fd, w=None, tv=None):
        sec, usec = tv if tv is not None else self.tv()
        self.ops.append({"op": "setopt", "fd": fd, "which": w or self.rng.choice(WHICH),
                         "sec": str(sec), "usec": str(usec)})

    def limit(self, fd, w=None):
        self.ops.append({"op": "limit", "fd": fd, "which": w or self.rng.choice(WHICH)})

    def kget(self, fd, w=None):
        self.ops.append({"op": "kget", "fd": fd, "which": w or self.rng.choice(WHICH)})

    def close(self, fd):
        if fd in self.live:
            self.live.remove(fd)
            self.dead.append(fd)
        self.ops.append({"op": "close", "fd": fd})

    def any_live(self):
        if not self.live:
            self.socket()
        return self.rng.choice(self.live)

    def random_op(self):
        r = self.rng
        k = r.random()
        if k < 0.12 and len(self.live) < 4:
            self.socket()
        elif k < 0.45:
            self.setopt(self.any_live())
        elif k < 0.76:
            self.limit(self.any_live())
        elif k < 0.80:  # a lookup on a descriptor number that is not open
            self.limit(r.choice(self.dead) if self.dead and r.random() < 0.7 else 9)
        elif k < 0.88:
            self.kget(self.any_live())
        else:
            self.close(self.any_live())


def subtick(rng):
    """limits that are not whole kernel ticks (below a millisecond included), set through the hook and looked
    up from the cache only (the kernel rounds what it stores to its tick, so no raw read-back here): the
    cached limit is exactly what the caller set, and a non-zero value is never "no limit" """
    h = Hist(rng)
    for _ in range(rng.randint(1, 2)):
        fd = h.socket()
        w = rng.choice(WHICH)
        if rng.random() < 0.3:
            h.limit(fd, w)
        h.setopt(fd, w, (rng.choice([0, 0, 0, 1, 7]), rng.choice([1, 500, 999, 1000, 1001, 1999, 19999, 999999])))
        h.limit(fd, w)
        h.limit(fd, "snd" if w == "rcv" else "rcv")
        if rng.random() < 0.5:
            h.limit(fd, w)
    return h


def pattern(rng):
    h = Hist(rng)
    k = rng.randrange(7)
    if k == 6:      # zero timeout: negative tv_sec, lookups, reset, close and reuse
        fd = h.socket()
        w = rng.choice(WHICH)
        if rng.random() < 0.5:
            h.limit(fd, w)
        h.setopt(fd, w, (rng.choice([-1, -7, -2**63]), rng.choice(USECS)))
        h.limit(fd, w)
        h.limit(fd, "snd" if w == "rcv" else "rcv")
        h.kget(fd, w)
        if rng.random() < 0.5:
            h.setopt(fd, w)
            h.limit(fd, w)
        else:
            h.close(fd)
            h.limit(fd, w)
            n = h.socket()
            h.limit(n, w)
    elif k == 0:      # set after I/O (finding #21)
        fd = h.socket()
        w = rng.choice(WHICH)
        h.limit(fd, w)
        h.setopt(fd, w)
        h.limit(fd, w)
        h.kget(fd, w)
    elif k == 1:    # set twice, both directions
        fd = h.socket()
        for _ in range(rng.randint(2, 4)):
            w = rng.choice(WHICH)
            h.setopt(fd, w)
            if rng.random() < 0.6:
                h.limit(fd, w)
    elif k == 2:    # close, number reused (finding #22)
        for _ in range(rng.randint(1, 3)):
            h.socket()
        fd = rng.choice(h.live)
        w = rng.choice(WHICH)
        h.setopt(fd, w, (rng.choice(SECS[1:]), rng.choice(USECS)))
        if rng.random() < 0.5:
            h.limit(fd, w)
        h.close(fd)
        n = h.socket()
        h.limit(n, w)
        h.limit(n, "snd" if w == "rcv" else "rcv")
        h.kget(n, w)
    elif k == 3:    # back to zero = unlimited
        fd = h.socket()
        w = rng.choice(WHICH)
        h.setopt(fd, w, (rng.choice(SECS[1:]), 0))
        h.limit(fd, w)
        h.setopt(fd, w, (0, 0))
        h.limit(fd, w)
    elif k == 4:    # holes: lowest free number
        for _ in range(rng.randint(2, 4)):
            h.socket()
        for fd in rng.sample(h.live, rng.randint(1, len(h.live))):
            if rng.random() < 0.7:
                h.setopt(fd)
            h.close(fd)
        for _ in range(rng.randint(1, 3)):
            n = h.socket()
            h.limit(n)
    for _ in range(rng.randint(0, 6)):
        h.random_op()
    for fd in list(h.live):
        if rng.random() < 0.5:
            h.limit(fd)
    return h


def malformed(rng):
    h = pattern(rng)
    k = rng.randrange(5)
    if k == 0:      # EDOM
        h.setopt(h.any_live(), tv=(rng.choice([0, 1, 7]), rng.choice([-1, 1000000, 2**40])))
        h.limit(h.any_live())
    elif k == 1:    # dead descriptor: setsockopt / close / getsockopt fail, nothing cached
        fd = rng.choice(h.dead) if h.dead and h.dead[-1] not in h.live else 9
        if fd in h.live:
            fd = 9
        h.setopt(fd)
        h.close(fd)
        h.kget(fd)
        h.limit(h.any_live())
    elif k == 2:    # a lookup on a dead descriptor: "no limit", nothing cached
        fd = 9
        h.limit(fd)
        h.limit(fd, "snd")
    else:           # negative tv_sec: accepted by the kernel, zero timeout
        fd = h.any_live()
        w = rng.choice(WHICH)
        h.setopt(fd, w, tv=(rng.choice([-1, -7, -2**63]), rng.choice(USECS)))
        h.limit(fd, w)
        h.kget(fd, w)
    return h


def gen(rng, tier):
    n = {"quick": 300, "thorough": 4000, "search": 800}[tier]
    cases = []
    for i in range(n):
        h = malformed(rng) if i % 8 == 7 else subtick(rng) if i % 8 == 3 else pattern(rng)
        if len(h.ops) > 14 and tier != "thorough":
            h.ops = h.ops[:14]
        cases.append({"ops": h.ops})
    return cases


def mutate(rng, case):
    out = []
    ops = case["ops"]
    for _ in range(6):
        o2 = [dict(o) for o in ops]
        i = rng.randrange(len(o2))
        if o2[i]["op"] == "setopt":
            o2[i]["sec"] = str(rng.choice(SECS))
            o2[i]["usec"] = str(rng.choice(USECS))
        elif o2[i]["op"] == "limit":
            o2.insert(i, {"op": "setopt", "fd": o2[i]["fd"], "which": o2[i]["which"], "sec": "3", "usec": "0"})
        else:
            o2.insert(i, {"op": "limit", "fd": 0, "which": rng.choice(WHICH)})
        out.append({"ops": o2})
    return out


def _w(w):
    return "Rcv" if w == "rcv" else "Snd"


def _op(o):
    k = o["op"]
    if k == "socket":
        return "Socket"
    if k == "setopt":
        return "SetOpt %s %s %s %s" % (gz(o["fd"]), _w(o["which"]), gz(o["sec"]), gz(o["usec"]))
    if k == "limit":
        return "Limit %s %s" % (gz(o["fd"]), _w(o["which"]))
    if k == "kget":
        return "KGet %s %s" % (gz(o["fd"]), _w(o["which"]))
    if k == "close":
        return "Close %s" % gz(o["fd"])
    raise ValueError(k)


def _obs(v):
    if isinstance(v, str):
        p = v.split(":")
        try:
            if p[0] == "fd":
                return "OFd " + gz(p[1])
            if p[0] == "ret":
                return "ORet " + gz(p[1])
            if p[0] == "val":
                return "OVal " + gz(p[1])
            if p[0] == "tv":
                return "OTv %s %s" % (gz(p[1]), gz(p[2]))
        except (IndexError, ValueError):
            return "ODiverged"
        if p[0] in ("aborted", "exited"):   # the process did not survive the call
            return "OAbort"
    return "ODiverged"


def term(case, obs):
    return "(%s, %s)" % (glist([_op(o) for o in case["ops"]]), glist([_obs(v) for v in obs]))


def _reused(obs):
    seen = set()
    for v in obs:
        if isinstance(v, str) and v.startswith("fd:"):
            if v in seen:
                return True
            seen.add(v)
    return False


def nontrivial(case, obs, verdict):
    t = set(verdict["tags"])
    return bool(t & {"overwrite", "evict", "saturate", "negative_sec"}) or _reused(obs)


def distribution(results):
    d = {"socket": 0, "setopt": 0, "limit": 0, "kget": 0, "close": 0, "histories_with_reuse": 0,
         "histories_set_after_io": 0, "histories_evicting_close": 0, "aborted_histories": 0, "malformed": 0,
         "max_len": 0}
    for c, o, v in results:
        for op in c["ops"]:
            d[op["op"]] += 1
        d["max_len"] = max(d["max_len"], len(c["ops"]))
        if _reused(o):
            d["histories_with_reuse"] += 1
        if "overwrite" in v["tags"]:
            d["histories_set_after_io"] += 1
        if "evict" in v["tags"]:
            d["histories_evicting_close"] += 1
        if any(isinstance(x, str) and x.startswith(("aborted", "exited")) for x in o):
            d["aborted_histories"] += 1
        if v.get("note") == "malformed":
            d["malformed"] += 1
    return d


LEVEL_TEXT = ("Unbounded theorems (all histories of socket creation, SO_RCVTIMEO/SO_SNDTIMEO setting, limit lookups as "
              "hooked I/O performs them, close and descriptor-number reuse) about a Gallina transcription of the two "
              "time-limit caches, the setsockopt hook and the close hook over a modelled kernel option table: the "
              "limit handed out for a live socket always equals the limit of its current option (zero = unlimited; the "
              "zero timeout Linux stores for a negative tv_sec = 1 ns, the least limit: time out at once), a reused "
              "descriptor number inherits nothing, a lookup on a dead descriptor answers no limit, and no history "
              "aborts. Proved by an invariant (a cache entry exists only for a live socket and equals the limit of its "
              "option; a zero timeout, which getsockopt cannot tell from no timeout, is always cached). The two "
              "repaired findings are refuted on the model of the code before each repair. The transcription is "
              "tied to the repository by running every generated history on real sockets through the crate's public "
              "setsockopt / close / recv_time_limit / send_time_limit, one child process per history, and comparing "
              "inside Coq.")
LEVEL_NOTE = ("Trusted: Coq kernel + vm_compute; the hand transcription and the modelled kernel table (checked against raw "
              "getsockopt in the runs); option values restricted to tick-exact ones; single caller thread. "
              "No axioms (Print Assumptions: closed under the global context).")
TECHNIQUE = "machine-checked proof (Coq) about an executable model + differential correspondence on real sockets"
