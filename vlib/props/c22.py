"""C22 — Preemption interrupts long-running coroutines, never syscalls."""
from ..core import gz, glist, gbool

ID = "C22"
PROPS = ["theories/Props/C22.vo"]
CASES_MODULE = "Cases.C22"
AREA = "mon"
FEATURES = ("preemptive",)      # second harness target dir: open-coroutine-core built with `preemptive`
ISOLATE = True                   # the monitor is a process-wide singleton; real signals; some cases crash
TIMEOUT_MS = 20000
HARNESS_JOBS = 4                 # real time and real signals: do not oversubscribe the machine
LEVEL = "proof"
SHRINK_KEY = None
SHARD_SIZE = 40


def _busy(rng, cap=3000):
    return [{"i": "work", "n": rng.randrange(1, 50)}, {"i": "spin_flag", "cap_ms": cap},
            {"i": "work", "n": rng.randrange(1, 50)}]


def _short(rng, allow_yield=True):
    body = []
    for _ in range(rng.randint(1, 5)):
        k = rng.random()
        if k < 0.5:
            body.append({"i": "work", "n": rng.randrange(0, 1000)})
        elif k < 0.75 and allow_yield:
            body.append({"i": "yield"})
        else:
            body += [{"i": "sysenter"}, {"i": "work", "n": rng.randrange(0, 100)}, {"i": "sysexit"}]
    return body


def gen_trace(rng, kind):
    if kind == "busy":          # a body that computes until its sibling has run: needs a preemption
        nsib = rng.randint(0, 2)
        cos = [{"body": _busy(rng)}]
        for _ in range(nsib):
            cos.append({"body": _short(rng)})
        cos.append({"body": [{"i": "work", "n": rng.randrange(1, 9)}, {"i": "set_flag"}]})
        return {"cos": cos, "first_then": [len(cos) - 1, 0], "kind": "busy"}
    if kind == "busy2":         # two busy bodies in a row, the flag is set by the third coroutine
        cos = [{"body": _busy(rng)}, {"body": _busy(rng)},
               {"body": [{"i": "work", "n": 3}, {"i": "set_flag"}]}]
        return {"cos": cos, "first_then": [2, 1], "kind": "busy2"}
    if kind == "syscall":       # 50 ms of wall time inside a system-call state: must not be suspended
        ms = rng.choice([30, 50, 80])
        # inside the system-call state: wall time passes, and a SIGURG is delivered on the spot (a late signal)
        inner = [{"i": "spin_ms", "ms": ms}, {"i": "raise"}]
        rng.shuffle(inner)
        cos = [{"body": [{"i": "work", "n": 2}, {"i": "sysenter"}] + inner + [{"i": "sysexit"},
                         {"i": "work", "n": rng.randrange(1, 9)}]},
               {"body": _short(rng)}]
        return {"cos": cos, "first_then": [0, 1], "kind": "syscall"}
    cos = [{"body": _short(rng)} for _ in range(rng.randint(1, 5))]
    return {"cos": cos, "first_then": None, "kind": "short"}


def gen(rng, tier):
    n = {"quick": 32, "thorough": 200, "search": 60}[tier]
    kinds = ["busy", "syscall", "short", "busy", "busy2", "short", "syscall", "busy"]
    cases = [gen_trace(rng, kinds[i % len(kinds)]) for i in range(n)]
    # the unsynchronised node set under several scheduler threads (known finding) and, as a control, under one
    stress = {"quick": [(4, 100), (1, 200)], "thorough": [(2, 300), (4, 200), (8, 100), (16, 50), (1, 400)],
              "search": [(2, 200)]}[tier]
    for t, per in stress:
        cases.append({"mode": "stress", "threads": t, "per_thread": per, "yields": 6, "kind": "stress%d" % t})
    # control: the same load on the crate built WITHOUT the preemptive feature (no monitor, no node set)
    for t, per in {"quick": [(8, 100)], "thorough": [(8, 100), (16, 50), (2, 300)], "search": []}[tier]:
        cases.append({"mode": "stress", "threads": t, "per_thread": per, "yields": 6, "kind": "control%d" % t,
                      "features": []})
    return cases


_INS = {"sysenter": "ISysEnter", "sysexit": "ISysExit", "yield": "IYield"}


def g_instr(i):
    k = i["i"]
    if k == "work":
        return "IWork %s" % gz(i["n"])
    if k in ("spin_ms", "spin_flag", "set_flag", "raise"):
        return "IWork 0"
    return _INS[k]


def g_st(s):
    if isinstance(s, dict):
        return "(CDone %s)" % gz(s["done"])
    return {"ready": "CReady", "running": "CRunning", "suspend": "CSuspend", "syscall": "CSyscall"}.get(s, "(CDone (-999))")


def g_ev(e):
    if "ch" in e:
        c, old, new, flag = e["ch"]
        return "MChange %d %s %s false %s" % (c, g_st(old), g_st(new), gbool(flag))
    b = e["b"]
    if b[1] == "work":
        return "MWork %d %s" % (b[0], gz(b[2]))
    return "MYield %d" % b[0]


def term(case, obs):
    x = obs[0] if obs else None
    if case.get("mode") == "stress":
        if isinstance(x, dict) and "total" in x:
            clean = (x["good"] == x["total"] and x["bad"] == 0 and x["missing"] == 0 and x["errors"] == 0
                     and x["nodes_left"] == 0 and x["panicked"] == 0)
            out = "OClean" if clean else "OWrong"
        elif isinstance(x, str) and x.startswith("diverged"):
            out = "ODiverged"
        else:
            out = "OAborted"
        pre = "features" not in case or "preemptive" in case["features"]
        return ("{| mc_stress := true; mc_progs := []; mc_evs := []; mc_results := []; mc_nodes_left := 0; "
                "mc_first_then := None; mc_threads := %d; mc_preemptive := %s; mc_outcome := %s |}"
                % (case["threads"], gbool(pre), out))
    progs = glist([glist([g_instr(i) for i in co["body"]]) for co in case["cos"]])
    ft = case.get("first_then")
    fts = "None" if not ft else "(Some (%d, %d)%%nat)" % (ft[0], ft[1])
    if isinstance(x, dict) and "ev" in x:
        evs = glist([g_ev(e) for e in x["ev"]])
        res = []
        for r in x["results"]:
            res.append(gz(r[1]) if isinstance(r, list) and str(r[1]).lstrip("-").isdigit() else "(-999)")
        return ("{| mc_stress := false; mc_progs := %s; mc_evs := %s; mc_results := %s; mc_nodes_left := %s; "
                "mc_first_then := %s; mc_threads := 1; mc_preemptive := true; mc_outcome := OClean |}"
                % (progs, evs, glist(res), gz(x["nodes_left"]), fts))
    out = "ODiverged" if isinstance(x, str) and x.startswith("diverged") else "OAborted"
    return ("{| mc_stress := false; mc_progs := %s; mc_evs := []; mc_results := []; mc_nodes_left := 0; "
            "mc_first_then := %s; mc_threads := 1; mc_preemptive := true; mc_outcome := %s |}" % (progs, fts, out))


def nontrivial(case, obs, verdict):
    return bool(set(verdict["tags"]) & {"preempted", "syscall", "aborted", "diverged", "wrong"})


def distribution(results):
    d = {"kinds": {}, "tags": {}, "events": 0, "max_wall_ms": 0}
    for c, o, v in results:
        d["kinds"][c.get("kind", "?")] = d["kinds"].get(c.get("kind", "?"), 0) + 1
        for t in v["tags"]:
            d["tags"][t] = d["tags"].get(t, 0) + 1
        x = o[0] if o else None
        if isinstance(x, dict) and "ev" in x:
            d["events"] += len(x["ev"])
            d["max_wall_ms"] = max(d["max_wall_ms"], x.get("wall_ms", 0))
    return d

PINNED = ["C22_holds", "C22_node_iff_running", "C22_overdue_signalled", "C22_syscall_never_suspended", "C22_results_unchanged",
          "C22_refuted_concurrent_submit", "C22_refuted_scan_during_update", "C22_holds_outside"]
RULE = ("harness built with the crate's `preemptive` feature; trace cases run one real Scheduler on the harness "
        "thread with the real monitor thread and real SIGURG: kinds busy (a body that computes until a sibling has "
        "run, 0-2 further siblings: needs a preemption, the sibling must complete first), busy2 (two busy bodies in "
        "a row), syscall (30/50/80 ms of wall time spent inside a system-call state and a SIGURG raised on the spot there, then a sibling), short (1-5 "
        "bodies of work / yield / syscall sections); stress cases run 1-16 scheduler threads x 50-400 short "
        "yielding coroutines without recording; non-trivial = the trace shows a preemption or a system-call "
        "section, or a stress run did not end cleanly; distinct = distinct case")
TRUSTED = ["hook H6 (verif::monitor_nodes: read-only copy of Monitor::notify_queue) read by a listener that is "
           "registered after the crate's MonitorListener",
           "harness bookkeeping (event log) runs with SIGURG blocked, so that signals land only in the computing "
           "parts of a body; bodies are interpreted from instruction lists, spin_ms / spin_flag / set_flag count as "
           "work 0",
           "the lockstep replay (MonitorOracle.replay) that decides whether an observed trace is a trace of the model"]
ASSUMPTIONS = ["signal delivery is an atomic action between two steps of a thread, and never inside the listener's own "
               "set operation; the register-level context switch of the handler is corosensei's (trusted)",
               "the unsynchronised HashSet is modelled as read-then-write-back of the whole set: lost operations "
               "are representable, memory corruption is not",
               "coroutines are pinned to their scheduler thread in the model (no work stealing between the traced "
               "thread and others); time is a clock that only [ATick] advances"]
LEVEL_TEXT = ("Unbounded theorems (every schedule of thread steps, clock ticks, monitor scans and signal deliveries, "
              "any number of scheduler threads and coroutines, any bodies) about the executable model Misc/Monitor.v of "
              "the listener protocol, the monitor scan and the signal handler: with synchronised set operations a "
              "thread has a node exactly while its coroutine is Running; an overdue Running coroutine is signalled by "
              "the next scan, suspended and queued behind its ready siblings; no coroutine is ever suspended in a "
              "system-call state; results do not depend on the signals. For the code as it is (unsynchronised set) "
              "the refutation witnesses (a lost insert with two threads, a scan racing with an operation in flight) and "
              "what holds outside them are proved; the trace oracle holds on every model run (C22_holds). The model "
              "is tied to the repository by replaying, inside Coq, every trace observed on a real Scheduler with the "
              "real monitor thread and real SIGURG (state changes with the H6 node flag, the bodies' own marks) "
              "against the model in lockstep; the oracle is evaluated on the observed trace.")
LEVEL_NOTE = ("Partial by nature: real signal delivery, the handler's context switch and wall-clock timing are outside "
              "any Gallina model; traces are observed on ONE scheduler thread, and the demand that a preemption "
              "happens is made robust by bodies that compute until their sibling has run (cap 3 s) instead of a fixed "
              "100 ms. Finding #25 (monitor_set_unsynchronised) is KNOWN and reproduces: with >= 2 scheduler threads "
              "the process dies with SIGSEGV or hangs (stress cases; once even with one scheduler thread against "
              "the monitor thread); the model shows only its lost-update / racing-scan consequence. The positive "
              "theorems are about synchronised set operations (what the code would do with a synchronised set); "
              "C22_holds_outside covers the unsynchronised model away from the defect. No axioms (closed under the "
              "global context).")
TECHNIQUE = ("machine-checked proof (Coq, state invariant over an interleaving model with atomic and two-step set "
             "operations) + lockstep replay of real traces with real signals inside Coq + multi-thread stress")
