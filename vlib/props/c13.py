"""C13 — Cancelling a task affects only that task."""
import json
from .. import poolcases

ID = "C13"
PROPS = ["theories/Props/C13.vo"]
CASES_MODULE = "Cases.C13"
AREA = "pool"
ISOLATE = True
TIMEOUT_MS = 3000
LEVEL = "proof"
SHRINK_KEY = "ops"
SHARD_SIZE = 25
term = poolcases.term
nontrivial = poolcases.nontrivial
distribution = poolcases.distribution


def gen(rng, tier):
    n = {"quick": 120, "thorough": 1500, "search": 600}[tier]
    return [poolcases.gen_late_cancel(rng) if i % 4 == 3 else poolcases.gen_case(rng, npools=1 if i % 3 else 2)
            for i in range(n)]


def extra(tier, rng, build_cache, known):
    """The schedule the property asks about (pause point in try_cancel_task): the scheduling thread
    moves from the cancel target (which parks) to another task between the lookup of the target's
    thread and the SIGVTALRM. Real threads and a real signal, in a child process. The bystander being
    cancelled is the recorded finding `signal_hits_current_coroutine`; anything else is reported."""
    from .. import core
    key = ((), False)
    if key not in build_cache:
        build_cache[key], _ = core.build_harness((), False)
    n = 2 if tier == "quick" else 6
    cases = [{"id": i, "clock": "0", "pools": [], "origin": "extra", "kind": "forced_cancel",
              "ops": [{"op": "forced_cancel"}]} for i in range(n)]
    res = core.run_harness(build_cache[key], AREA, cases, isolate=True, timeout_ms=40000, jobs=2)
    reproduced, conclusive, viol = 0, 0, []
    for c in cases:
        r = res[c["id"]]
        fc = r[0].get("forced_cancel") if r and isinstance(r[0], dict) else None
        if not fc or not fc.get("h4") or not fc.get("bystander_started"):
            continue                      # the forced schedule was not reached (loaded machine): no verdict
        conclusive += 1
        if not fc.get("bystander_finished"):
            reproduced += 1
    found = []
    if reproduced:
        k = [k for k in known if k.get("defect") == "signal_hits_current_coroutine" and k.get("status") == "known"]
        if k:
            found = k
        else:
            viol.append({"case": cases[0], "obs": res[cases[0]["id"]], "tags": ["signal_hits_current_coroutine"],
                         "note": "a cancel aimed at a parked task cancelled the task that was running when the signal arrived"})
    # a REPEATED cancel of a task that was cancelled while suspended (a legal no-op), issued while an
    # unrelated task runs on the same thread: the bystander must finish
    rc = [{"id": 100 + i, "clock": "0", "pools": [], "origin": "extra", "kind": "repeat_cancel",
           "ops": [{"op": "repeat_cancel"}]} for i in range(2 if tier == "quick" else 6)]
    rres = core.run_harness(build_cache[key], AREA, rc, isolate=True, timeout_ms=40000, jobs=2)
    rconcl, rok = 0, 0
    for c in rc:
        r = rres[c["id"]]
        v = r[0].get("repeat_cancel") if r and isinstance(r[0], dict) else None
        if not v or not v.get("target_parked") or not v.get("bystander_started"):
            continue
        rconcl += 1
        if v.get("bystander_finished") and not v.get("target_finished"):
            rok += 1
        else:
            viol.append({"case": c, "obs": r, "tags": ["repeat_cancel_hits_bystander"],
                         "note": "a second cancel of an already cancelled (suspended) task interrupted the task running on "
                                 "the thread, or the cancelled task ran on: %s" % json.dumps(v)})
    return {"info": {"forced_cancel_runs": len(cases), "forced_cancel_conclusive": conclusive,
                     "forced_cancel_bystander_cancelled": reproduced, "repeat_cancel_conclusive": rconcl,
                     "repeat_cancel_bystander_finished": rok}, "violations": viol, "known_reproduced": found}


PINNED = ['C13_running_cancel_hits_target', 'C13_refuted_signal_hits_current_coroutine', 'C13_single_pool', 'C13_single_pool_no_bystander']
LEVEL_TEXT = 'Pool model and oracle; clauses: a task cancelled before it starts never starts (unless cleaning its handle withdrew the request) and its waiter finds an error; a worker coroutine is reported Cancelled only while carrying a task whose cancel was requested (bystander clause). Theorems over ALL well-formed single-pool histories for the tracker clauses and for the bystander clause. Cancelling a RUNNING task goes through SIGVTALRM to the thread: small-step model (lookup, coroutine switch, delivery) with a theorem for all histories that only the target is cancelled when the thread does not switch coroutine between lookup and delivery, and a REFUTATION with the witness [lookup; switch; deliver] when it does: reproduced on the real code through the pause point in try_cancel_task (real threads, real signal), a recorded finding. Tied to /repo by histories on real pools compared in Coq, including cancels of finished tasks whose worker moved on.'
LEVEL_NOTE = "Trusted: Coq kernel + vm_compute; hand transcription of co_pool/mod.rs, task.rs and the parts of scheduler.rs it uses (Sched/Pool.v over Sched/Sched.v, Coroutine/Co.v, Queue/OWS.v), validated on the sampled histories only; one scheduling thread at a time (the pool's scheduling half is !Sync), virtual clock (hooks H1/H2), DashMap/DashSet as association lists, process-global task/coroutine queues and cancel sets modelled as shared state of all pools. The single-pool theorems assume wf_pool1: ONE pool with min_size 0, ANY keep_alive_time, max_size >= 1, a clock that does not reach u64::MAX while a keep-alive is pending (for C01/C11), operations naming submitted tasks, task bodies that keep the coroutine API contract (no self-cancel, syscall states well bracketed), clock steps not below the model clock; the evidence counts how many generated histories satisfy it (tag wf_pool1). Histories with two pools, or with a minimum size, are covered by the correspondence and the oracle only. No axioms (every theorem closed under the global context)."
TECHNIQUE = 'Coq proof (simulation invariant over all histories of a Gallina pool model; finite-state closure lifted to all schedules for the wait/notify and signal protocols) + differential correspondence inside Coq + forced real-thread schedules through cfg-guarded pause points'
