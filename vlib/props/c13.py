"""C13 — Pool worker count is exact and bounded."""
from .. import poolcases

ID = "C13"
PROPS = ["theories/Props/C13.vo"]
CASES_MODULE = "Cases.C13"
AREA = "pool"
ISOLATE = True
TIMEOUT_MS = 3000
LEVEL = "proof"
SHRINK_KEY = "ops"
SHARD_SIZE = 25
term = poolcases.term
nontrivial = poolcases.nontrivial
distribution = poolcases.distribution


def gen(rng, tier):
    n = {"quick": 120, "thorough": 1500, "search": 600}[tier]
    return [poolcases.gen_case(rng, npools=1 if i % 3 else 2) for i in range(n)]
