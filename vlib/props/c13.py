"""C13 — Pool worker count is exact and bounded."""
from .. import poolcases

ID = "C13"
PROPS = ["theories/Props/C13.vo"]
CASES_MODULE = "Cases.C13"
AREA = "pool"
ISOLATE = True
TIMEOUT_MS = 3000
LEVEL = "proof"
SHRINK_KEY = "ops"
SHARD_SIZE = 25
term = poolcases.term
nontrivial = poolcases.nontrivial
distribution = poolcases.distribution


def gen(rng, tier):
    n = {"quick": 120, "thorough": 1500, "search": 600}[tier]
    return [poolcases.gen_late_cancel(rng) if i % 4 == 3 else poolcases.gen_case(rng, npools=1 if i % 3 else 2)
            for i in range(n)]


def extra(tier, rng, build_cache, known):
    """The schedule the property asks about (pause point in try_cancel_task): the scheduling thread
    moves from the cancel target (which parks) to another task between the lookup of the target's
    thread and the SIGVTALRM. Real threads and a real signal, in a child process. The bystander being
    cancelled is the recorded finding `signal_hits_current_coroutine`; anything else is reported."""
    from .. import core
    key = ((), False)
    if key not in build_cache:
        build_cache[key], _ = core.build_harness((), False)
    n = 2 if tier == "quick" else 6
    cases = [{"id": i, "clock": "0", "pools": [], "origin": "extra", "kind": "forced_cancel",
              "ops": [{"op": "forced_cancel"}]} for i in range(n)]
    res = core.run_harness(build_cache[key], AREA, cases, isolate=True, timeout_ms=40000, jobs=2)
    reproduced, conclusive, viol = 0, 0, []
    for c in cases:
        r = res[c["id"]]
        fc = r[0].get("forced_cancel") if r and isinstance(r[0], dict) else None
        if not fc or not fc.get("h4") or not fc.get("bystander_started"):
            continue                      # the forced schedule was not reached (loaded machine): no verdict
        conclusive += 1
        if not fc.get("bystander_finished"):
            reproduced += 1
    found = []
    if reproduced:
        k = [k for k in known if k.get("defect") == "signal_hits_current_coroutine" and k.get("status") == "known"]
        if k:
            found = k
        else:
            viol.append({"case": cases[0], "obs": res[cases[0]["id"]], "tags": ["signal_hits_current_coroutine"],
                         "note": "a cancel aimed at a parked task cancelled the task that was running when the signal arrived"})
    return {"info": {"forced_cancel_runs": len(cases), "forced_cancel_conclusive": conclusive,
                     "forced_cancel_bystander_cancelled": reproduced}, "violations": viol, "known_reproduced": found}
