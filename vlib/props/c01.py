"""C01 — Every submitted task runs exactly once."""
from .. import poolcases

ID = "C01"
PROPS = ["theories/Props/C01.vo"]
CASES_MODULE = "Cases.C01"
AREA = "pool"
ISOLATE = True
TIMEOUT_MS = 3000
LEVEL = "proof"
SHRINK_KEY = "ops"
SHARD_SIZE = 25
term = poolcases.term
nontrivial = poolcases.nontrivial
distribution = poolcases.distribution


def extra(tier, rng, build_cache, known):
    """'From any number of threads': several plain threads submit to ONE pool at the same time (the way
    user threads submit to an event loop) while nobody schedules; then the pool is drained and every
    task's executions are counted. A lost or doubled task is the recorded finding `ring_multi_producer`
    (the local ring is a single-producer structure); it needs the race to hit, so a run may not show it."""
    from .. import core
    key = ((), False)
    if key not in build_cache:
        build_cache[key], _ = core.build_harness((), False)
    rounds = {"quick": 24, "thorough": 200, "search": 60}[tier]
    cases = [{"id": i, "clock": "0", "pools": [], "origin": "extra", "kind": "race_submit",
              "ops": [{"op": "race_submit", "threads": rng.choice([4, 6, 8]), "per": rng.choice([30, 60])}]}
             for i in range(rounds)]
    res = core.run_harness(build_cache[key], AREA, cases, isolate=True, timeout_ms=40000, jobs=4)
    hit, viol, conclusive = [], [], 0
    for c in cases:
        r = res[c["id"]]
        v = r[0].get("race_submit") if r and isinstance(r[0], dict) else None
        if not v:
            continue
        conclusive += 1
        if v["lost"] or v["dup"] or v["once"] != v["submitted"] or v["accepted"] != v["submitted"]:
            hit.append((c, r, v))
    found = []
    if hit:
        k = [k for k in known if k.get("defect") == "ring_multi_producer" and k.get("status") == "known"]
        if k:
            found = k
        else:
            c, r, v = hit[0]
            viol.append({"case": c, "obs": r, "tags": ["ring_multi_producer"],
                         "note": "concurrent submit_task calls on one pool: %d of %d tasks never ran, %d ran twice"
                                 % (v["lost"], v["submitted"], v["dup"])})
    return {"info": {"race_submit_rounds": conclusive, "race_submit_rounds_with_loss": len(hit),
                     "race_submit_tasks": sum(c["ops"][0]["threads"] * c["ops"][0]["per"] for c in cases)},
            "violations": viol, "known_reproduced": found}


def gen(rng, tier):
    n = {"quick": 120, "thorough": 1500, "search": 600}[tier]
    return [poolcases.gen_keepalive_run(rng) if i % 6 == 5 else poolcases.gen_case(rng, npools=1 if i % 3 else 2)
            for i in range(n)]


PINNED = ['C01_refuted_stolen_worker_wedges_pool', 'C01_single_pool', 'C01_no_call_diverges', 'C01_result_is_own', 'C01_single_pool_no_defect', 'C01_ring_exclusive_pushes_are_kept', 'C01_ring_single_producer', 'C01_refuted_ring_multi_producer']
LEVEL_TEXT = "Executable Gallina model of CoroutinePool (submit, scheduling pass with worker growth, worker loop, task run, results, cancel, clean, stop) and a model-independent oracle over observed histories: a task starts at most once and only if accepted, finishes at most once, after a pass that was not cut by its deadline nothing accepted is stranded (whatever has not started is waiting for a worker slot, whatever started is finished, cancelled or legitimately parked), no pass fails or diverges. Theorem over ALL well-formed single-pool histories: the oracle accepts the model's own run, and no pass or stop of such a history diverges (termination of the worker loop, the scheduling pass and the stop loop proved by a decreasing potential); stored results are the task's own outcome (body_outcome) or the cancel/stop error, after every prefix; with one pool the two-pool defects cannot arise (no premise). Concurrent submitters: a small-step model of the local ring's producer side (st3 push: load tail, write slot, publish) with a theorem for any number of producers and every exclusive schedule (nothing lost, order kept) and a REFUTATION for two concurrent producers, reproduced on the real pool by racing submit_task calls (recorded finding ring_multi_producer). With two pools on the process-wide queues the property is REFUTED by a theorem with a concrete witness (a stolen worker wedges the thief's pass), reproduced on the real code as a recorded finding. Tied to /repo by running the same histories on real pools (one per child process, virtual clock) and comparing every observation with the model's inside Coq."
LEVEL_NOTE = "Trusted: Coq kernel + vm_compute; hand transcription of co_pool/mod.rs, task.rs and the parts of scheduler.rs it uses (Sched/Pool.v over Sched/Sched.v, Coroutine/Co.v, Queue/OWS.v), validated on the sampled histories only; one scheduling thread at a time (the pool's scheduling half is !Sync), virtual clock (hooks H1/H2), DashMap/DashSet as association lists, process-global task/coroutine queues and cancel sets modelled as shared state of all pools. The single-pool theorems assume wf_pool1: ONE pool with min_size 0, ANY keep_alive_time, max_size >= 1, a clock that does not reach u64::MAX while a keep-alive is pending (for C01/C11), operations naming submitted tasks, task bodies that keep the coroutine API contract (no self-cancel, syscall states well bracketed), clock steps not below the model clock; the evidence counts how many generated histories satisfy it (tag wf_pool1). Histories with two pools, or with a minimum size, are covered by the correspondence and the oracle only. No axioms (every theorem closed under the global context)."
TECHNIQUE = 'Coq proof (simulation invariant over all histories of a Gallina pool model; finite-state closure lifted to all schedules for the wait/notify and signal protocols) + differential correspondence inside Coq + forced real-thread schedules through cfg-guarded pause points'
