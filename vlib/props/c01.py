"""C01 — Every submitted task runs exactly once."""
from .. import poolcases

ID = "C01"
PROPS = ["theories/Props/C01.vo"]
CASES_MODULE = "Cases.C01"
AREA = "pool"
ISOLATE = True
TIMEOUT_MS = 3000
LEVEL = "proof"
SHRINK_KEY = "ops"
SHARD_SIZE = 25
term = poolcases.term
nontrivial = poolcases.nontrivial
distribution = poolcases.distribution


def gen(rng, tier):
    n = {"quick": 120, "thorough": 1500, "search": 600}[tier]
    return [poolcases.gen_case(rng, npools=1 if i % 3 else 2) for i in range(n)]


PINNED = ['C01_refuted_stolen_worker_wedges_pool', 'C01_single_pool', 'C01_no_call_diverges', 'C01_result_is_own', 'C01_single_pool_no_defect']
LEVEL_TEXT = "Executable Gallina model of CoroutinePool (submit, scheduling pass with worker growth, worker loop, task run, results, cancel, clean, stop) and a model-independent oracle over observed histories: a task starts at most once and only if accepted, finishes at most once, after a pass that was not cut by its deadline nothing accepted is stranded (whatever has not started is waiting for a worker slot, whatever started is finished, cancelled or legitimately parked), no pass fails or diverges. Theorem over ALL well-formed single-pool histories: the oracle accepts the model's own run, and no pass or stop of such a history diverges (termination of the worker loop, the scheduling pass and the stop loop proved by a decreasing potential); stored results are the task's own outcome (body_outcome) or the cancel/stop error, after every prefix; with one pool the two-pool defects cannot arise (no premise). With two pools on the process-wide queues the property is REFUTED by a theorem with a concrete witness (a stolen worker wedges the thief's pass), reproduced on the real code as a recorded finding. Tied to /repo by running the same histories on real pools (one per child process, virtual clock) and comparing every observation with the model's inside Coq."
LEVEL_NOTE = "Trusted: Coq kernel + vm_compute; hand transcription of co_pool/mod.rs, task.rs and the parts of scheduler.rs it uses (Sched/Pool.v over Sched/Sched.v, Coroutine/Co.v, Queue/OWS.v), validated on the sampled histories only; one scheduling thread at a time (the pool's scheduling half is !Sync), virtual clock (hooks H1/H2), DashMap/DashSet as association lists, process-global task/coroutine queues and cancel sets modelled as shared state of all pools. The single-pool theorems assume wf_pool1: ONE pool with min_size 0, keep_alive_time 0, max_size >= 1, operations naming submitted tasks, task bodies that keep the coroutine API contract (no self-cancel, syscall states well bracketed), clock steps not below the model clock; the evidence counts how many generated histories satisfy it (tag wf_pool1). Histories with two pools, or with keep-alive/min-size (keepalive_stop family), are covered by the correspondence and the oracle only. No axioms (every theorem closed under the global context)."
TECHNIQUE = 'Coq proof (simulation invariant over all histories of a Gallina pool model; finite-state closure lifted to all schedules for the wait/notify and signal protocols) + differential correspondence inside Coq + forced real-thread schedules through cfg-guarded pause points'
