"""C04 — Queue operations and task submission always terminate."""
from .. import queues

ID = "C04"
PROPS = ["theories/Props/C04.vo"]
CASES_MODULE = "Cases.C04"
AREA = "ows"
ISOLATE = True
TIMEOUT_MS = 2500
LEVEL = "proof"
SHRINK_KEY = "ops"
RULE = ("sequential histories over 1-4 handles biased to fill -> steal -> fill-again, plus random histories; "
        "every call under a 2.5 s watchdog (expiry = observation `diverged`); non-trivial = the model's run "
        "overflowed, stole, consulted the shared queue on a tick, or popped idle; distinct = distinct op list")
term = queues.term
nontrivial = queues.nontrivial
distribution = queues.distribution


def gen(rng, tier):
    n = {"quick": 120, "thorough": 1500, "search": 600}[tier]
    cases = []
    for i in range(n):
        if i % 2 == 0:
            cases.append(queues.fill_steal_fill(rng))
        else:
            cases.append(queues.random_history(rng, rng.randint(5, 40), drain=True))
    return cases
