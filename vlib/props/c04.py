"""C04 — Queue operations and task submission always terminate."""
from .. import queues, pwsq

ID = "C04"
PROPS = ["theories/Props/C04.vo", "theories/Props/PWS.vo"]
CASES_MODULE = "Cases.C04"
AREA = "ows"
ISOLATE = True
TIMEOUT_MS = 2500
LEVEL = "proof"
SHRINK_KEY = "ops"
RULE = ("sequential histories over 1-4 handles biased to fill -> steal -> fill-again, plus random histories; "
        "every call under a 2.5 s watchdog (expiry = observation `diverged`); non-trivial = the model's run "
        "overflowed, stole, consulted the shared queue on a tick, or popped idle; distinct = distinct op list")


def term(case, obs):
    if pwsq.is_plain(case):
        return "(@inr qcase pcase %s)" % pwsq.term(case, obs)
    return "(@inl qcase pcase %s)" % queues.term(case, obs)


def nontrivial(case, obs, verdict):
    return pwsq.nontrivial(case, obs, verdict) if pwsq.is_plain(case) else queues.nontrivial(case, obs, verdict)


def distribution(results):
    d = queues.distribution([r for r in results if not pwsq.is_plain(r[0])])
    d["plain_queue"] = pwsq.distribution([r for r in results if pwsq.is_plain(r[0])])
    return d


def gen(rng, tier):
    n = {"quick": 120, "thorough": 1500, "search": 150}[tier]
    cases = []
    for i in range(n):
        if i % 2 == 0:
            cases.append(queues.fill_steal_fill(rng))
        else:
            cases.append(queues.random_history(rng, rng.randint(5, 40), drain=True))
    cases += pwsq.gen_c04(rng, tier)
    return cases

PINNED = ['C04_step_terminates', 'C04_terminates', 'C04_holds', 'C04_model_sync', 'PWS_C04_step_terminates', 'PWS_C04_terminates', 'PWS_C04_holds']
LEVEL_TEXT = 'Theorem: no call of the model exhausts its fuel from ANY state (push_to_global makes progress or stops), hence no history diverges. Tied to the code by fill/steal/fill histories under a watchdog; a call that never returns is the observation `diverged`.'
LEVEL_NOTE = ("Trusted: Coq kernel + vm_compute; hand transcription of ordered_work_steal.rs (model OWS.v) validated on the "
              "sampled histories only; st3 rings / crossbeam injectors / skiplist modelled as FIFO lists and a sorted map; "
              "sequential histories (one call at a time); the steal start index is an input via the build.rs import "
              "rewrite. No axioms (closed under the global context).")
TECHNIQUE = "Coq proof (invariants over all histories of a Gallina model) + lockstep differential correspondence inside Coq"

LEVEL_TEXT += ' The plain WorkStealQueue has the same theorem (no call of Queue/PWS.v diverges from any state) and the same watchdog correspondence.'
