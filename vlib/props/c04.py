"""C04 — Queue operations and task submission always terminate."""
from .. import queues

ID = "C04"
PROPS = ["theories/Props/C04.vo"]
CASES_MODULE = "Cases.C04"
AREA = "ows"
ISOLATE = True
TIMEOUT_MS = 2500
LEVEL = "proof"
SHRINK_KEY = "ops"
RULE = ("sequential histories over 1-4 handles biased to fill -> steal -> fill-again, plus random histories; "
        "every call under a 2.5 s watchdog (expiry = observation `diverged`); non-trivial = the model's run "
        "overflowed, stole, consulted the shared queue on a tick, or popped idle; distinct = distinct op list")
term = queues.term
nontrivial = queues.nontrivial
distribution = queues.distribution


def gen(rng, tier):
    n = {"quick": 120, "thorough": 1500, "search": 150}[tier]
    cases = []
    for i in range(n):
        if i % 2 == 0:
            cases.append(queues.fill_steal_fill(rng))
        else:
            cases.append(queues.random_history(rng, rng.randint(5, 40), drain=True))
    return cases

PINNED = ['C04_step_terminates', 'C04_terminates', 'C04_holds', 'C04_model_sync']
LEVEL_TEXT = 'Theorem: no call of the model exhausts its fuel from ANY state (push_to_global makes progress or stops), hence no history diverges. Tied to the code by fill/steal/fill histories under a watchdog; a call that never returns is the observation `diverged`.'
LEVEL_NOTE = ("Trusted: Coq kernel + vm_compute; hand transcription of ordered_work_steal.rs (model OWS.v) validated on the "
              "sampled histories only; st3 rings / crossbeam injectors / skiplist modelled as FIFO lists and a sorted map; "
              "sequential histories (one call at a time); the steal start index is an input via the build.rs import "
              "rewrite. The plain WorkStealQueue is not modelled. No axioms (closed under the global context).")
TECHNIQUE = "Coq proof (invariants over all histories of a Gallina model) + lockstep differential correspondence inside Coq"
