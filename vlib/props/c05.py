"""C05 — Higher-priority work is served first, FIFO among equals."""
from .. import queues

ID = "C05"
PROPS = ["theories/Props/C05.vo"]
CASES_MODULE = "Cases.C05"
AREA = "ows"
ISOLATE = True
TIMEOUT_MS = 2500
LEVEL = "proof"
SHRINK_KEY = "ops"
RULE = ("sequential histories over 1-4 handles with priorities from {i64::MIN, MIN+1, -1, 0, 1, MAX-1, MAX} and small ranges with many ties: single-worker histories that never exceed the capacity, random multi-handle histories with overflow and steals; "
        "every call under a 2.5 s watchdog (expiry = observation `diverged`); non-trivial = the model's run "
        "overflowed, stole, consulted the shared queue on a tick, or popped idle; distinct = distinct op list")
term = queues.term
nontrivial = queues.nontrivial
distribution = queues.distribution


def gen(rng, tier):
    n = {"quick": 120, "thorough": 1500, "search": 600}[tier]
    cases = []
    for i in range(n):
        k = i % 3
        if k == 0:
            cases.append(queues.single_worker(rng))
        elif k == 1:
            cases.append(queues.random_history(rng, rng.randint(5, 50), style=rng.choice(["ties", "extreme", "mix"]), drain=True))
        else:
            cases.append(queues.fill_steal_fill(rng))
    return cases
