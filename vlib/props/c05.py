"""C05 — Higher-priority work is served first, FIFO among equals."""
from .. import queues

ID = "C05"
PROPS = ["theories/Props/C05.vo"]
CASES_MODULE = "Cases.C05"
AREA = "ows"
ISOLATE = True
TIMEOUT_MS = 2500
LEVEL = "proof"
SHRINK_KEY = "ops"
RULE = ("sequential histories over 1-4 handles with priorities from {i64::MIN, MIN+1, -1, 0, 1, MAX-1, MAX} and small ranges with many ties: single-worker histories that never exceed the capacity, random multi-handle histories with overflow and steals; "
        "every call under a 2.5 s watchdog (expiry = observation `diverged`); non-trivial = the model's run "
        "overflowed, stole, consulted the shared queue on a tick, or popped idle; distinct = distinct op list")
term = queues.term
nontrivial = queues.nontrivial
distribution = queues.distribution


def gen(rng, tier):
    n = {"quick": 120, "thorough": 1500, "search": 150}[tier]
    cases = []
    for i in range(n):
        k = i % 4
        if k == 3:
            cases.append(queues.thief_fills(rng))
        elif k == 0:
            cases.append(queues.single_worker(rng))
        elif k == 1:
            cases.append(queues.random_history(rng, rng.randint(5, 50), style=rng.choice(["ties", "extreme", "mix"]), drain=True))
        else:
            cases.append(queues.fill_steal_fill(rng))
    return cases

PINNED = ['C05_holds', 'C05_wf_needed']
LEVEL_TEXT = 'Theorem over all well-formed histories: every popped item is the (priority, arrival) minimum of the container it is taken from, and a single worker with at most `cap` queued pops the stable minimum of everything pending (refinement of the rings to a priority-bucketed pending list), for all i64 priorities. Tied to the code by lockstep histories with extremes and ties.'
LEVEL_NOTE = ("Trusted: Coq kernel + vm_compute; hand transcription of ordered_work_steal.rs (model OWS.v) validated on the "
              "sampled histories only; st3 rings / crossbeam injectors / skiplist modelled as FIFO lists and a sorted map; "
              "sequential histories (one call at a time); the steal start index is an input via the build.rs import "
              "rewrite. The plain WorkStealQueue is not modelled. No axioms (closed under the global context).")
TECHNIQUE = "Coq proof (invariants over all histories of a Gallina model) + lockstep differential correspondence inside Coq"
