"""C21 — OS readiness interest matches outstanding waits."""
from ..core import gz, glist, gbool

ID = "C21"
PROPS = ["theories/Props/C21.vo"]
PINNED = ["C21_holds_outside", "C21_refuted_records_shared_across_pollers", "C21_reuse_clean", "C21_oracle_sound",
          "C21_events_do_not_matter", "C21_one_poller_never_tagged"]
CASES_MODULE = "Cases.C21"
HEADER = ""
AREA = "net21"
ISOLATE = True
TIMEOUT_MS = 20000
LEVEL = "proof"
SHRINK_KEY = "ops"
SHARD_SIZE = 40
RULE = ("histories of 3-16 interest operations (wait read / wait write with zero timeout, delete read / write / "
        "both, hooked close, hooked shutdown in the four flavours, reuse of a closed descriptor number) over 2-3 "
        "socketpair ends pinned to fixed descriptor numbers, on 1 event loop (about three quarters) or 2-3 loops; a "
        "case is non-trivial when some descriptor held both interests at some point or a closed descriptor number "
        "was reused and waited on; distinct = distinct (loops, nfd, op list)")
TRUSTED = ["/proc/self/fdinfo/<epoll fd> shows the interest each poller holds (events: bit 0 read, bit 2 write)",
           "epoll descriptors of the process in creation order are the event loops in index order",
           "socketpair ends pinned to descriptor numbers 200.. with dup2, so a reopened slot reuses the number"]
ASSUMPTIONS = ["epoll modelled as a table per poller: add of a present descriptor fails, modify/delete of an absent one "
               "fails, any call on a closed descriptor fails, close removes the descriptor from every table",
               "all calls come from one thread that is not an event loop (round-robin dispatch of waits, deletions "
               "visit every loop); the loops' own threads only process readiness events, which the model has as "
               "Deliver steps that touch only the token maps",
               "which loop serves a wait is derived from the history (round-robin counter), not observed"]

KINDS = ["waitr", "waitw", "delr", "delw", "del", "close", "shutrd", "shutwr", "shutrdwr", "shutbad", "reopen"]
WEIGHTS = [24, 24, 10, 10, 8, 7, 3, 3, 3, 1, 7]
CTOR = {"waitr": "WaitR", "waitw": "WaitW", "delr": "DelR", "delw": "DelW", "del": "DelE", "close": "Close",
        "shutrd": "ShutRd", "shutwr": "ShutWr", "shutrdwr": "ShutRdWr", "shutbad": "ShutBad", "reopen": "Reopen"}


def gen_case(rng, loops):
    nfd = rng.randint(2, 3)
    ops = []
    closed = set()
    for _ in range(rng.randint(3, 16)):
        k = rng.choices(KINDS, WEIGHTS)[0]
        fd = rng.randrange(nfd)
        if k == "reopen" and closed and rng.random() < 0.8:
            fd = rng.choice(sorted(closed))
        if k in ("waitr", "waitw") and fd in closed and rng.random() < 0.7:
            k = "reopen"
        ops.append({"op": k, "fd": fd})
        if k == "close":
            closed.add(fd)
        if k == "reopen":
            closed.discard(fd)
    return {"loops": loops, "nfd": nfd, "ops": ops}


def gen(rng, tier):
    n = {"quick": 64, "thorough": 600, "search": 250}[tier]
    cases = []
    for _ in range(n):
        r = rng.random()
        loops = 1 if r < 0.75 else (2 if r < 0.93 else 3)
        cases.append(gen_case(rng, loops))
    return cases


def _op(o):
    return "%s %s" % (CTOR[o["op"]], gz(o["fd"]))


def _obs(v):
    if isinstance(v, dict):
        tabs = [glist(["(%s, %s, %s)" % (gz(r[0]), gbool(r[1]), gbool(r[2])) for r in t]) for t in v["tables"]]
        return "O21 %s %s" % (gbool(v["res"]), glist(tabs))
    return "O21 false [[(%s, true, true)]]" % gz(-7)  # harness trouble: can never match the model


def term(case, obs):
    return "{| c_loops := %d%%nat; c_nfd := %s; c_ops := %s; c_impl := %s |}" % (
        int(case["loops"]), gz(case["nfd"]), glist([_op(o) for o in case["ops"]]), glist([_obs(v) for v in obs]))


def nontrivial(case, obs, verdict):
    both = any(isinstance(v, dict) and any(r[1] and r[2] for t in v["tables"] for r in t) for v in obs)
    reuse = False
    closed = set()
    for o in case["ops"]:
        if o["op"] == "close":
            closed.add(o["fd"])
        if o["op"] == "reopen" and o["fd"] in closed:
            closed.discard(o["fd"])
            reuse = True
    return both or reuse


def distribution(results):
    d = {k: 0 for k in KINDS}
    d.update({"loops1": 0, "loops2": 0, "loops3": 0, "res_false": 0, "rows_both": 0, "rows_read": 0, "rows_write": 0,
              "bad_obs": 0})
    for c, o, v in results:
        d["loops%d" % c["loops"]] += 1
        for op, ob in zip(c["ops"], o):
            d[op["op"]] += 1
            if not isinstance(ob, dict):
                d["bad_obs"] += 1
                continue
            if not ob["res"]:
                d["res_false"] += 1
            for t in ob["tables"]:
                for r in t:
                    if r[1] and r[2]:
                        d["rows_both"] += 1
                    elif r[1]:
                        d["rows_read"] += 1
                    elif r[2]:
                        d["rows_write"] += 1
    return d


LEVEL_TEXT = ("Unbounded theorems (all histories, any length, any descriptors, asynchronous event deliveries at any point) "
              "about the Gallina model of the five process-global record maps, register/reregister/deregister against "
              "an epoll-like interest table per poller, the EventLoops dispatch (round-robin waits, deletions over all "
              "loops), hooked close and shutdown: C21_holds_outside (one poller: after every step the interest the OS "
              "holds for each descriptor equals the union of the outstanding interests), C21_reuse_clean (a descriptor "
              "number closed through the runtime and handed out again has no record and no OS entry), and the "
              "refutation witness of the recorded finding records_shared_across_pollers (two loops); "
              "C21_events_do_not_matter (any number of pollers: event processing by the loops' own threads changes no "
              "result and no OS-side table, which is why it need not be scheduled by the harness). The model is tied "
              "to the real runtime by running the same histories through the public entry points and comparing the "
              "results and the /proc view of every loop's epoll table inside Coq, for 1, 2 and 3 loops.")
LEVEL_NOTE = ("Trusted: Coq kernel + vm_compute; hand-written model validated on sampled histories only; epoll semantics "
              "modelled; calls come from one non-loop thread; the loops' own event processing is modelled by Deliver "
              "steps (they touch only the token maps); the multi-poller case is claimed only as refuted. No axioms "
              "(Print Assumptions: closed under the global context).")
