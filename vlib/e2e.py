"""End-to-end harness through the user-facing crate `open-coroutine` (facade) and the C ABI of the
`open-coroutine-hook` cdylib it links (`harness-e2e/`). Build helper and runner.

The binary is rebuilt from $VERIF_REPO on every call of `build()` (cargo decides what is stale).
`open-coroutine/build.rs` builds the cdylib with a nested cargo and has no `rerun-if-changed`
lines, so cargo re-runs it only when a file of the `open-coroutine` package changes: a change in
`hook/` or `core/` alone would leave a stale `libopen_coroutine_hook.so` behind. `build()` therefore
keeps a digest of the sources the cdylib is made of and drops the build script's fingerprint in our
own target directory when it changes."""
import hashlib
import json
import os
import shutil
import signal
import subprocess
import tempfile
import time
from concurrent.futures import ThreadPoolExecutor

from . import core

E2E = os.path.join(core.VERIF, "harness-e2e")
TARGET = os.path.join(core.CACHE, "target-e2e")
AREA = "e2e"


def _digest_sources():
    h = hashlib.sha256()
    roots = [os.path.join(core.REPO, d) for d in ("core", "hook", "macros", "open-coroutine")]
    files = [os.path.join(core.REPO, "Cargo.toml"), os.path.join(core.REPO, "Cargo.lock")]
    for r in roots:
        for root, dirs, fs in os.walk(r):
            dirs[:] = [d for d in dirs if d not in ("target", ".git")]
            for f in fs:
                if f.endswith((".rs", ".toml", ".md", ".c", ".h", ".S", ".s")):
                    files.append(os.path.join(root, f))
    for p in sorted(files):
        try:
            with open(p, "rb") as f:
                h.update(p.encode() + b"\0" + hashlib.sha256(f.read()).digest())
        except OSError:
            h.update(p.encode() + b"\0missing")
    return h.hexdigest()


def build():
    """Build harness-e2e against $VERIF_REPO's working tree. Returns (binary path, seconds)."""
    core.ensure_dirs()
    with core.Lock("cargo-target-e2e"):
        lock_src = os.path.join(core.REPO, "Cargo.lock")
        lock_dst = os.path.join(E2E, "Cargo.lock")
        try:
            if (not os.path.exists(lock_dst)) or core._stale_lock(lock_src, lock_dst):
                shutil.copyfile(lock_src, lock_dst)
                with open(lock_dst + ".src-sha", "w") as f:
                    f.write(core._sha(lock_src))
        except OSError as e:
            raise core.BuildError("cannot copy Cargo.lock (e2e)", str(e))
        try:
            tmpl = open(os.path.join(E2E, "Cargo.toml.in")).read().replace("@REPO@", core.REPO)
            dst = os.path.join(E2E, "Cargo.toml")
            if (not os.path.exists(dst)) or open(dst).read() != tmpl:
                with open(dst, "w") as f:
                    f.write(tmpl)
        except OSError as e:
            raise core.BuildError("cannot write harness-e2e/Cargo.toml", str(e))
        # stale-dylib guard (see module docstring)
        dig = _digest_sources()
        stamp = os.path.join(core.CACHE, "e2e-src.sha")
        old = open(stamp).read().strip() if os.path.exists(stamp) else None
        if old != dig:
            fp = os.path.join(TARGET, "debug", ".fingerprint")
            if os.path.isdir(fp):
                for d in os.listdir(fp):
                    if d.startswith("open-coroutine-") and not d.startswith(("open-coroutine-core-", "open-coroutine-macros-", "open-coroutine-hook-")):
                        for f in os.listdir(os.path.join(fp, d)):
                            if f.startswith("run-build-script"):
                                try:
                                    os.remove(os.path.join(fp, d, f))
                                except OSError:
                                    pass
        env = dict(os.environ)
        env["VERIF_REPO"] = core.REPO
        env["CARGO_TARGET_DIR"] = TARGET
        env["CARGO_NET_OFFLINE"] = "true"
        env.pop("RUSTFLAGS", None)
        t0 = time.time()
        p = subprocess.run(["cargo", "build", "--offline", "--quiet"], cwd=E2E, env=env,
                           capture_output=True, text=True, timeout=2400)
        if p.returncode != 0:
            raise core.BuildError("e2e harness (facade + hook cdylib) build failed against the current /repo tree",
                                  p.stdout + p.stderr)
        binp = os.path.join(TARGET, "debug", "ocv-e2e")
        so = os.path.join(TARGET, "debug", "deps", "libopen_coroutine_hook.so")
        if not (os.path.exists(binp) and os.path.exists(so)):
            raise core.BuildError("e2e harness built but binary or libopen_coroutine_hook.so missing", binp + "\n" + so)
        with open(stamp, "w") as f:
            f.write(dig)
        return binp, time.time() - t0


def _run_one(binp, case, timeout_s):
    d = tempfile.mkdtemp(prefix="e2e-", dir=os.path.join(core.CACHE, "cases"))
    try:
        cp = os.path.join(d, "case.json")
        op = os.path.join(d, "out.jsonl")
        with open(cp, "w") as f:
            json.dump(case, f)
        env = dict(os.environ)
        deps = os.path.join(os.path.dirname(binp), "deps")
        env["LD_LIBRARY_PATH"] = deps + (":" + env["LD_LIBRARY_PATH"] if env.get("LD_LIBRARY_PATH") else "")
        log = open(os.path.join(d, "log.txt"), "wb") if os.environ.get("OCV_E2E_KEEP") else subprocess.DEVNULL
        tag = None
        try:
            p = subprocess.Popen([binp, cp, op], stdin=subprocess.DEVNULL, stdout=log, stderr=log, env=env,
                                 start_new_session=True)
            try:
                rc = p.wait(timeout=timeout_s)
                if rc < 0:
                    tag = "aborted:%d" % (-rc)
                elif rc != 0:
                    tag = "exited:%d" % rc
            except subprocess.TimeoutExpired:
                try:
                    os.killpg(p.pid, signal.SIGKILL)
                except OSError:
                    p.kill()
                p.wait()
                tag = "diverged"
        finally:
            if log is not subprocess.DEVNULL:
                log.close()
        partial, fin = [], None
        if os.path.exists(op):
            for line in open(op):
                if line.startswith("F "):
                    try:
                        fin = json.loads(line[2:])["obs"]
                    except Exception:
                        pass
                elif line.startswith("P "):
                    try:
                        v = json.loads(line[2:])
                        if v != "init":
                            partial.append(v)
                    except Exception:
                        pass
        if fin is not None:
            return fin
        return partial + [tag or "exited:0-without-result"]
    finally:
        if not os.environ.get("OCV_E2E_KEEP"):
            shutil.rmtree(d, ignore_errors=True)


def run_cases(binp, cases, timeout_s=40, jobs=8, confirm=True):
    """One process per case, watchdog `timeout_s`. Returns {id: obs list}; a case that outlives the
    watchdog ends in "diverged" (re-run once alone with three times the budget before it counts),
    one that dies in "aborted:<signal>"."""
    if not cases:
        return {}
    res = {}
    with ThreadPoolExecutor(max_workers=max(1, min(jobs, len(cases)))) as ex:
        for c, r in zip(cases, ex.map(lambda c: _run_one(binp, c, timeout_s), cases)):
            res[c["id"]] = r
    for c in cases:
        if confirm and "diverged" in [x for x in res[c["id"]] if isinstance(x, str)]:
            res[c["id"]] = _run_one(binp, c, timeout_s * 3)
    return res


_installed = False


def install():
    """Make cases with area "e2e" runnable through the generic driver (corpus, replay): wraps
    `core.run_harness` so that such cases are built and run by this module instead of `ocv`."""
    global _installed
    if _installed:
        return
    _installed = True
    orig = core.run_harness

    def run_harness(binp, area, cases, **kw):
        if area != AREA:
            return orig(binp, area, cases, **kw)
        b, _ = build()
        res = {}
        for c in cases:
            w = c.get("watchdog_s")
            res.update(run_cases(b, [c], timeout_s=int(w) if w else max(10, int(kw.get("timeout_ms", 40000)) // 1000),
                                 confirm=not w))
        return res

    core.run_harness = run_harness
