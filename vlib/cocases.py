"""Program/history generators and Gallina printers for the coroutine group (C07, C08, C09)."""
from .core import gz, glist, gbool

U64 = 2**64 - 1
VALS = [0, 1, 2, 7, 255, 2**32, 2**63, U64 - 1, U64]


def sysst(rng, clock=0):
    k = rng.random()
    if k < 0.4:
        return {"k": "exec"}
    if k < 0.7:
        return {"k": "susp", "t": str(min(U64, rng.choice([0, clock, clock + 1000, 5000, U64])))}
    if k < 0.85:
        return {"k": "cb"}
    return {"k": "to"}


def gen_body(rng, style, clock):
    """style: plain | timed | sys | wild"""
    n = rng.randint(0, 12 if style != "wild" else 30)
    body = []
    insys = False
    for _ in range(n):
        k = rng.random()
        y = str(rng.choice(VALS) if rng.random() < 0.5 else rng.randrange(0, 1000))
        if style == "plain":
            body.append({"i": "suspend", "y": y} if k < 0.8 else {"i": "log", "k": rng.randrange(10)})
            continue
        if k < 0.30:
            body.append({"i": "suspend", "y": y})
        elif k < 0.42:
            body.append({"i": "delay", "y": y, "d": str(rng.choice([0, 1, 500, 10**6, 10**9, U64]))})
        elif k < 0.54:
            body.append({"i": "until", "y": y, "t": str(min(U64, rng.choice([0, 1, clock, clock + 777, 12345, 10**12, U64])))})
        elif k < 0.60:
            body.append({"i": "tick", "d": str(rng.choice([1, 100, 1000, 10**6]))})
        elif k < 0.66:
            body.append({"i": "log", "k": rng.randrange(10)})
        elif k < 0.86 and style in ("sys", "wild"):
            if not insys or style == "wild":
                body.append({"i": "syscall", "y": y, "n": rng.randrange(3), "st": sysst(rng, clock)})
                insys = True
            else:
                if rng.random() < 0.5:
                    body.append({"i": "running"})
                    insys = False
                else:
                    body.append({"i": "syscall", "y": y, "n": rng.randrange(3), "st": sysst(rng, clock)})
        elif k < 0.92 and style in ("sys", "wild"):
            body.append({"i": "running"})
            insys = False
        elif k < 0.95:
            if style != "wild" and insys:
                body.append({"i": "running"})
                insys = False
            body.append({"i": "cancel"})
            break
        else:
            body.append({"i": "suspend", "y": y})
    if style != "wild" and insys:
        # well-formed bodies end in state Running (what the hooked facades guarantee)
        body.append({"i": "syscall", "y": "0", "n": body_last_name(body), "st": {"k": "exec"}})
        body.append({"i": "running"})
    if not body or body[-1]["i"] != "cancel":
        k = rng.random()
        if k < 0.6:
            body.append({"i": "return", "v": str(rng.choice(VALS))})
        elif k < 0.75:
            body.append({"i": "panic", "k": "static", "m": rng.randrange(100)})
        elif k < 0.9:
            body.append({"i": "panic", "k": "owned", "m": rng.randrange(100)})
        elif k < 0.95:
            body.append({"i": "panic", "k": "other", "m": 0})
        # else: fall off the end (returns 0)
    return body


def body_last_name(body):
    for ins in reversed(body):
        if ins["i"] == "syscall":
            return ins["n"]
    return 0


def gen_case(rng, style=None):
    style = style or rng.choice(["plain", "timed", "timed", "sys", "sys", "wild"])
    clock = rng.choice([0, 1000, 10**9, 2**62])
    nco = rng.choice([1, 1, 2, 3])
    bodies = [gen_body(rng, style, clock) for _ in range(nco)]
    ops = []
    cur = clock
    nops = rng.randint(3, 40)
    for _ in range(nops):
        k = rng.random()
        i = rng.randrange(nco + (1 if rng.random() < 0.02 else 0))
        if k < 0.70:
            ops.append({"op": "resume", "i": i, "arg": str(rng.choice(VALS) if rng.random() < 0.5 else rng.randrange(1000))})
        elif k < 0.80:
            cur = rng.choice([cur + 1, cur + 1000, cur + 10**6, 12345, 10**12, U64, cur])
            cur = min(cur, U64)
            ops.append({"op": "clock", "c": str(cur)})
        elif k < 0.88:
            ops.append({"op": "state", "i": i})
        elif k < 0.94:
            ops.append({"op": "running", "i": i})
        else:
            ops.append({"op": "syscall", "i": i, "y": str(rng.randrange(100)), "n": rng.randrange(3), "st": sysst(rng, cur)})
    return {"clock": str(clock), "nl": 2, "panicky": rng.random() < 0.5, "bodies": bodies, "ops": ops,
            "kind": style}


def leak_case(rng):
    """C09 bias: A yields with a request while in a syscall state, then B makes plain suspends."""
    clock = 1000
    a = [{"i": "syscall", "y": "1", "n": 0, "st": {"k": "susp", "t": "9000"}},
         rng.choice([{"i": "until", "y": "2", "t": str(rng.choice([12345, 9000, U64]))},
                     {"i": "delay", "y": "2", "d": "5000"},
                     {"i": "suspend", "y": "2"}]),
         {"i": "syscall", "y": "0", "n": 0, "st": {"k": "exec"}}, {"i": "running"}, {"i": "return", "v": "1"}]
    b = [{"i": "suspend", "y": "3"}, {"i": "suspend", "y": "4"}, {"i": "return", "v": "2"}]
    c = [{"i": "syscall", "y": "1", "n": 1, "st": {"k": "exec"}}, {"i": "cancel"}]
    bodies = [a, b] + ([c] if rng.random() < 0.5 else [])
    order = [0, 1, 1] if len(bodies) == 2 else rng.choice([[0, 2, 1, 1], [2, 1, 0, 1, 1]])
    ops = [{"op": "resume", "i": i, "arg": str(rng.randrange(100))} for i in order]
    ops += [{"op": "syscall", "i": 0, "y": "1", "n": 0, "st": {"k": "cb"}}, {"op": "resume", "i": 0, "arg": "5"},
            {"op": "resume", "i": 1, "arg": "6"}]
    return {"clock": str(clock), "nl": 2, "panicky": False, "bodies": bodies, "ops": ops, "kind": "leak"}


# ------------------------------------------------------------------------------------ printers

def g_sysst(s):
    k = s["k"]
    return {"exec": "SExecuting", "cb": "SCallback", "to": "STimeout"}.get(k) or "(SSuspend %s)" % gz(s["t"])


def g_msg(m):
    if m == "nomsg":
        return "MNoMsg"
    if isinstance(m, dict) and "k" in m:
        return "(MStr %s)" % gz(m["k"])
    if isinstance(m, dict) and "unreachable code" in str(m.get("raw", "")):
        return "MUnreachable"
    return "(MStr (-1))"  # a message the model never produces


def g_state(s):
    k = s["s"]
    if k == "ready":
        return "Ready"
    if k == "running":
        return "Running"
    if k == "suspend":
        return "(Suspend %s %s)" % (gz(s["y"]), gz(s["t"]))
    if k == "syscall":
        return "(Syscall %s %s %s)" % (gz(s["y"]), gz(s["n"]), g_sysst(s["st"]))
    if k == "cancelled":
        return "Cancelled"
    if k == "complete":
        return "(Complete %s)" % gz(s["r"])
    if k == "error":
        return "(Error %s)" % g_msg(s["m"])
    raise ValueError(s)


def g_pkind(kind, m):
    if kind == "static":
        return "(PStatic %s)" % gz(m)
    if kind == "owned":
        return "(POwned %s)" % gz(m)
    return "POther"


def g_instr(i):
    k = i["i"]
    if k == "suspend":
        return "ISuspend %s" % gz(i["y"])
    if k == "delay":
        return "IDelay %s %s" % (gz(i["y"]), gz(i["d"]))
    if k == "until":
        return "IUntil %s %s" % (gz(i["y"]), gz(i["t"]))
    if k == "cancel":
        return "ICancel"
    if k == "syscall":
        return "ISyscall %s %s %s" % (gz(i["y"]), gz(i["n"]), g_sysst(i["st"]))
    if k == "running":
        return "IRunning"
    if k == "tick":
        return "ITick %s" % gz(i["d"])
    if k == "log":
        return "ILog %s" % gz(i["k"])
    if k == "return":
        return "IReturn %s" % gz(i["v"])
    if k == "panic":
        return "IPanic %s" % g_pkind(i["k"], i["m"])
    raise ValueError(k)


def g_op(o):
    k = o["op"]
    if k == "resume":
        return "Resume %d %s" % (o["i"], gz(o["arg"]))
    if k == "running":
        return "ExtRunning %d" % o["i"]
    if k == "syscall":
        return "ExtSyscall %d %s %s %s" % (o["i"], gz(o["y"]), gz(o["n"]), g_sysst(o["st"]))
    if k == "clock":
        return "SetClock %s" % gz(o["c"])
    if k == "state":
        return "GetState %d" % o["i"]
    raise ValueError(k)


def g_req(r):
    k = r["k"]
    if k == "none":
        return "RNone"
    if k == "until":
        return "(RUntil %s)" % gz(r["t"])
    if k == "delay":
        return "(RDelay %s)" % gz(r["d"])
    return "RCancel"


def g_bev(b):
    e = b["e"]
    if e == "start":
        return "BStart %s" % gz(b["p"])
    if e == "got":
        return "BGot %s" % gz(b["p"])
    if e == "yield":
        return "BYield %s %s" % (gz(b["y"]), g_req(b["req"]))
    if e == "res":
        return "BRes %s" % gbool(b["ok"])
    if e == "tick":
        return "BTick %s" % gz(b["d"])
    if e == "log":
        return "BLog %s" % gz(b["k"])
    if e == "ret":
        return "BRet %s" % gz(b["v"])
    if e == "panic":
        return "BPanic %s" % g_pkind(b["k"], b["m"])
    raise ValueError(e)


def g_cb(c):
    k = c["c"]
    if k == "changed":
        return "(CbChanged %s)" % g_state(c["new"])
    if k == "complete":
        return "(CbComplete %s)" % gz(c["r"])
    if k == "error":
        return "(CbError %s)" % g_msg(c["m"])
    return {"ready": "CbReady", "running": "CbRunning", "suspend": "CbSuspend", "syscall": "CbSyscall",
            "cancel": "CbCancel"}[k]


def g_ev(e):
    if "b" in e:
        return "EB %d (%s)" % (e["i"], g_bev(e["b"]))
    return "EL %d %d %s %s" % (e["l"], e["i"], g_cb(e["cb"]), g_state(e["old"]))


def g_res(r):
    if isinstance(r, dict) and "ok" in r:
        return "ROk %s" % g_state(r["ok"])
    return {"unit": "RUnit", "err": "RErr", "unwound": "RUnwound", "bad": "RBad"}.get(r, "RBad")


def g_obs(o):
    if not isinstance(o, dict):
        return "(RBad, [EB 0 (BLog (-1))])"  # aborted/diverged markers: never equal to a model observation
    return "(%s, %s)" % (g_res(o["res"]), glist([g_ev(e) for e in o["ev"]]))


def term(case, obs):
    return ("{| cc_clock := %s; cc_bodies := %s; cc_nl := %d; cc_ops := %s; cc_impl := %s |}"
            % (gz(case["clock"]), glist([glist([g_instr(i) for i in b]) for b in case["bodies"]]), case["nl"],
               glist([g_op(o) for o in case["ops"]]), glist([g_obs(o) for o in obs])))


def nontrivial(case, obs, verdict):
    return len(verdict["tags"]) >= 2


def distribution(results):
    d = {"kinds": {}, "instr": {}, "ops": {}, "tags": {}, "events": 0, "bodies": 0}
    for c, o, v in results:
        d["kinds"][c.get("kind", "?")] = d["kinds"].get(c.get("kind", "?"), 0) + 1
        for b in c["bodies"]:
            d["bodies"] += 1
            for i in b:
                d["instr"][i["i"]] = d["instr"].get(i["i"], 0) + 1
        for op in c["ops"]:
            d["ops"][op["op"]] = d["ops"].get(op["op"], 0) + 1
        for t in v["tags"]:
            d["tags"][t] = d["tags"].get(t, 0) + 1
        for x in o:
            if isinstance(x, dict):
                d["events"] += len(x.get("ev", []))
    return d
