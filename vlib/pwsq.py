"""History generators and Gallina printers for the PLAIN work-steal queue (core/src/common/work_steal.rs):
harness area `pws`, model Queue/PWS.v, judges Cases/PWS.v (judge_pws_c03 / judge_pws_c04 / judge_pws_c06).
Meant to be wired into the C03/C04/C06 checks next to the ordered-queue cases of queues.py; every case
carries its own `area`/`isolate`/`timeout_ms`, so the driver groups it correctly whatever the module's AREA is."""
from .core import gz, glist

AREA = "pws"
TIMEOUT_MS = 2500


def next_pow2(n):
    p = 1
    while p < n:
        p *= 2
    return p


class Hist:
    def __init__(self, rng, locals_, cap, handles=None):
        self.rng = rng
        self.n = locals_
        self.cap = cap
        self.rcap = next_pow2(cap)       # what st3 really allocates
        self.ops = []
        self.next_item = 1
        self.nh = 0
        self.pushed = 0
        self.pend_ub = 0                 # upper bound on the pending items if the queue is right:
        #                                  every local pop returns an item while anything is pending
        for _ in range(self.n if handles is None else handles):
            self.new()

    def new(self):
        self.ops.append({"op": "new"})
        self.nh += 1

    def item(self):
        x = self.next_item
        self.next_item += 1
        self.pushed += 1
        self.pend_ub += 1
        return x

    def gpush(self):
        self.ops.append({"op": "gpush", "x": self.item()})

    def lpush(self, h):
        self.ops.append({"op": "lpush", "h": h, "x": self.item()})

    def lpop(self, h, start=None):
        if start is None:
            start = self.rng.randrange(0, max(1, self.n))
        self.ops.append({"op": "lpop", "h": h, "start": start})
        self.pend_ub = max(0, self.pend_ub - 1)

    def gpop(self):
        self.ops.append({"op": "gpop"})

    def obs(self, kind, h=None):
        o = {"op": kind}
        if h is not None:
            o["h"] = h
        self.ops.append(o)

    def look(self):
        """a random read-only call"""
        k = self.rng.choice(["glen", "gempty", "llen", "lfull", "lempty"])
        if k in ("glen", "gempty") or self.nh == 0:
            self.obs(k if k in ("glen", "gempty") else "glen")
        elif self.rng.random() < 0.05:
            self.obs(k, self.nh + self.rng.randint(0, 2))      # unknown handle: refused, `bad` on both sides
        else:
            self.obs(k, self.rng.randrange(self.nh))

    def drain(self):
        """enough pops to empty everything (a local pop returns an item while anything is pending, so
        pend_ub + 1 pops spread over the handles suffice if the queue is right; if it is not, the idle
        clause has fired), ending with one pop per handle, a shared pop and the length reads"""
        if self.nh:
            total = self.pend_ub + 2
            style = self.rng.choice(["rr", "one", "rand"])
            one = self.rng.randrange(self.nh)
            for i in range(total):
                h = {"rr": i % self.nh, "one": one, "rand": self.rng.randrange(self.nh)}[style]
                self.lpop(h)
        for _ in range(2):
            self.gpop()
        for h in range(self.nh):
            self.lpop(h)
        self.gpop()
        self.ops.append({"op": "glen"})
        self.ops.append({"op": "gempty"})

    def case(self, kind, **extra):
        c = {"area": AREA, "isolate": True, "timeout_ms": TIMEOUT_MS, "queue": "plain",
             "cfg": {"locals": self.n, "cap": self.cap}, "ops": self.ops, "kind": kind, "stream": True,
             "nh": self.nh}
        c.update(extra)
        return c


CAPS = [0, 1, 2, 3, 4, 4, 5, 7, 8, 9, 16, 64]


def random_history(rng, length, caps=None, drain=True, kind="random"):
    n = rng.choice([1, 2, 2, 3, 4])
    cap = rng.choice(caps or CAPS)
    k = rng.random()
    # mostly one handle per ring; sometimes fewer, sometimes more (two handles then share a ring)
    nh = n if k < 0.8 else (rng.randint(1, n) if k < 0.9 else n + rng.randint(1, 2))
    h = Hist(rng, n, cap, handles=nh)
    pushy = rng.choice([0.3, 0.4, 0.55])
    for _ in range(length):
        k = rng.random()
        hh = rng.randrange(h.nh)
        if k < pushy:
            h.lpush(hh)
        elif k < pushy + 0.1:
            h.gpush()
        elif k < 0.82:
            h.lpop(hh)
        elif k < 0.87:
            h.gpop()
        else:
            h.look()
    if drain:
        h.drain()
    return h.case(kind, drain=drain)


def fill_steal_fill(rng):
    """C03/C04 bias: one handle fills its ring (to the real, rounded-up capacity) and overflows, siblings
    steal from it, the victim pushes and pops again, siblings overflow too."""
    n = rng.choice([2, 2, 3, 4])
    cap = rng.choice([1, 2, 3, 4, 4, 5, 6, 8, 9, 16])
    h = Hist(rng, n, cap)
    victim = rng.randrange(n)
    for _ in range(rng.randint(max(1, h.rcap - 1), h.rcap + 3)):
        h.lpush(victim)
    h.obs("lfull", victim)
    h.obs("glen")
    for _ in range(rng.randint(1, h.rcap + 1)):
        t = rng.choice([x for x in range(n) if x != victim])
        h.lpop(t, start=victim if rng.random() < 0.8 else None)
        if rng.random() < 0.3:
            h.obs("llen", t)
    h.obs("llen", victim)
    for _ in range(rng.randint(1, h.rcap + 3)):
        k = rng.random()
        if k < 0.5:
            h.lpush(victim)
        elif k < 0.65:
            h.lpush(rng.randrange(n))
        elif k < 0.85:
            h.lpop(victim)
        else:
            h.lpop(rng.randrange(n))
    h.obs("llen", victim)
    h.obs("glen")
    h.drain()
    return h.case("fill_steal_fill", drain=True)


def overflow_chain(rng):
    """C03/C04 bias: repeated overflows of one ring (each moves half of it and the new item to the shared
    queue), with shared and local pops in between."""
    n = rng.choice([1, 2])
    cap = rng.choice([0, 1, 2, 3, 4, 8])
    h = Hist(rng, n, cap)
    w = rng.randrange(n)
    for _ in range(rng.randint(2, 4)):
        for _ in range(rng.randint(h.rcap, 2 * h.rcap + 2)):
            h.lpush(w)
        h.obs("glen")
        h.obs("llen", w)
        for _ in range(rng.randint(0, h.rcap)):
            if rng.random() < 0.5:
                h.lpop(rng.randrange(n))
            else:
                h.gpop()
    h.drain()
    return h.case("overflow_chain", drain=True)


def starvation(rng):
    """C06 bias: a handle that never runs empty pops 130-200 times while items sit in the shared queue."""
    n = rng.choice([1, 2])
    cap = rng.choice([4, 8, 64])
    h = Hist(rng, n, cap)
    for _ in range(rng.randint(1, 3)):
        h.gpush()
    w = rng.randrange(n)
    pops = rng.randint(130, 200)
    queued = 0
    for _ in range(pops):
        while queued < 2:
            h.lpush(w)
            queued += 1
        h.lpop(w)
        queued -= 1
        if rng.random() < 0.02:
            h.gpush()
    h.drain()
    return h.case("starvation", drain=True)


def thief_starvation(rng):
    """C06 bias: a handle that keeps running dry and is fed by stealing from a sibling (or by bursts of
    its own pushes) pops 130-200 times while an item sits in the shared queue."""
    n = rng.choice([2, 2, 3])
    cap = rng.choice([4, 8, 64])
    h = Hist(rng, n, cap)
    thief = rng.randrange(n)
    victim = rng.choice([x for x in range(n) if x != thief])
    h.gpush()
    burst = rng.choice([0, 0, 3, 10, 40])
    feed = rng.choice([1, 1, 2, 3])          # items parked in the victim per dry pop (steals move half)
    pops = rng.randint(130, 200)
    own = 0
    for i in range(pops):
        if burst and i % (burst + 3) == 0:
            for _ in range(min(burst, h.rcap - 1)):
                h.lpush(thief)
                own += 1
        if own == 0:
            for _ in range(feed):
                h.lpush(victim)      # stealable items for the next dry pop
        else:
            own -= 1
        h.lpop(thief, start=victim if rng.random() < 0.8 else None)
        if rng.random() < 0.02:
            h.gpush()
    h.drain()
    return h.case("thief_starvation", drain=True)


def idle_after_steal(rng):
    """C06 idle clause bias: work sits only in a sibling ring or only in the shared queue; the other handles
    pop with every start index."""
    n = rng.choice([2, 3, 4])
    cap = rng.choice([1, 2, 4, 8])
    h = Hist(rng, n, cap)
    owner = rng.randrange(n)
    for _ in range(rng.randint(1, h.rcap)):
        h.lpush(owner)
    if rng.random() < 0.4:
        h.gpush()
    others = [x for x in range(n) if x != owner]
    for _ in range(rng.randint(2, 3 * h.rcap + 2)):
        t = rng.choice(others) if rng.random() < 0.8 else owner
        h.lpop(t, start=rng.randrange(n))
        if rng.random() < 0.2:
            h.look()
    h.drain()
    return h.case("idle_after_steal", drain=True)


# tiers: quick (what a wired ./check Cxx --tier quick can afford next to the ordered-queue cases), full (the
# size used to validate the model: several hundred histories per flag and seed), thorough, search
def gen_c03(rng, tier):
    n = {"quick": 160, "full": 320, "thorough": 2000, "search": 300}[tier]
    cases = []
    for i in range(n):
        k = i % 6
        if k == 0:
            cases.append(fill_steal_fill(rng))
        elif k == 1:
            cases.append(random_history(rng, rng.randint(5, 60), caps=[1, 2, 3, 4, 5, 7, 9]))
        elif k == 2:
            cases.append(overflow_chain(rng))
        elif k == 3:
            cases.append(random_history(rng, rng.randint(1, 25), caps=[0, 1, 2]))
        elif k == 4:
            cases.append(random_history(rng, rng.randint(5, 40)))
        else:
            # long pop runs with items both in the shared queue and in the local rings: the 61st pop
            # consults the shared queue first and must not lose what the local ring holds
            cases.append(starvation(rng) if i % 12 == 5 else thief_starvation(rng))
    return cases


def gen_c04(rng, tier):
    n = {"quick": 160, "full": 320, "thorough": 2000, "search": 300}[tier]
    cases = []
    for i in range(n):
        k = i % 3
        if k == 0:
            cases.append(fill_steal_fill(rng))
        elif k == 1:
            cases.append(overflow_chain(rng))
        else:
            cases.append(random_history(rng, rng.randint(5, 40)))
    return cases


def gen_c06(rng, tier):
    n = {"quick": 100, "full": 300, "thorough": 1200, "search": 200}[tier]
    cases = []
    for i in range(n):
        k = i % 5
        if k == 0:
            cases.append(starvation(rng))
        elif k == 1:
            cases.append(thief_starvation(rng))
        elif k == 2:
            cases.append(idle_after_steal(rng))
        elif k == 3:
            cases.append(fill_steal_fill(rng))
        else:
            cases.append(random_history(rng, rng.randint(5, 40)))
    return cases


def is_plain(case):
    """true for the cases of this module (to dispatch term/nontrivial/distribution in a shared check)"""
    return case.get("area") == AREA


GEN = {"c03": gen_c03, "c04": gen_c04, "c06": gen_c06}
JUDGE = {"c03": "judge_pws_c03", "c04": "judge_pws_c04", "c06": "judge_pws_c06"}


def op_term(o):
    k = o["op"]
    if k == "gpush":
        return "PWS.GPush %s" % gz(o["x"])
    if k == "gpop":
        return "PWS.GPop"
    if k == "glen":
        return "PWS.GLen"
    if k == "gempty":
        return "PWS.GEmpty"
    if k == "new":
        return "PWS.NewHandle"
    if k == "lpush":
        return "PWS.LPush %d %s" % (o["h"], gz(o["x"]))
    if k == "lpop":
        return "PWS.LPop %d %d" % (o["h"], o["start"])
    if k == "llen":
        return "PWS.LLen %d" % o["h"]
    if k == "lfull":
        return "PWS.LFull %d" % o["h"]
    if k == "lempty":
        return "PWS.LEmpty %d" % o["h"]
    raise ValueError(k)


def obs_term(v):
    if v == "unit":
        return "PWS.OUnit"
    if v == "bad":
        return "PWS.OBad"
    if v == "diverged":
        return "PWS.ODiverged"
    if isinstance(v, dict) and "item" in v:
        return "PWS.OItem None" if v["item"] is None else "PWS.OItem (Some %s)" % gz(v["item"])
    if isinstance(v, dict) and "num" in v:
        return "PWS.ONum %s" % gz(v["num"])
    if isinstance(v, dict) and "bool" in v:
        return "PWS.OBool true" if v["bool"] else "PWS.OBool false"
    return "PWS.OBad"  # aborted:<sig>, harness-lost ... : never equal to a model observation of a wf op


def term(case, obs):
    """the pcase record of Cases/PWS.v: the input and the implementation's observations, both printed from
    the JSON the harness consumed and produced"""
    ops = case["ops"][:len(obs)] if obs and obs[-1] == "diverged" else case["ops"]
    return ("{| p_locals := %d; p_cap := %s; p_ops := %s; p_impl := %s |}"
            % (case["cfg"]["locals"], gz(case["cfg"]["cap"]), glist([op_term(o) for o in ops]),
               glist([obs_term(v) for v in obs])))


def drained(case, obs):
    """history ends with an idle pop on every handle and an empty shared pop (see Hist.drain)"""
    if not case.get("drain"):
        return False
    k = case["nh"] + 3  # nh lpops, gpop, glen, gempty
    if len(obs) != len(case["ops"]) or len(obs) < k:
        return False
    tail = obs[-k:-2]
    return all(isinstance(v, dict) and "item" in v and v["item"] is None for v in tail)


def distribution(results):
    d = {"kinds": {}, "ops": {}, "tags": {}, "diverged": 0, "drained": 0,
         "lengths": {"min": None, "max": 0, "sum": 0}}
    for c, o, v in results:
        d["kinds"][c.get("kind", "?")] = d["kinds"].get(c.get("kind", "?"), 0) + 1
        for op in c["ops"]:
            d["ops"][op["op"]] = d["ops"].get(op["op"], 0) + 1
        for t in v.get("tags", []):
            d["tags"][t] = d["tags"].get(t, 0) + 1
        n = len(c["ops"])
        d["lengths"]["max"] = max(d["lengths"]["max"], n)
        d["lengths"]["min"] = n if d["lengths"]["min"] is None else min(d["lengths"]["min"], n)
        d["lengths"]["sum"] += n
        if o and o[-1] == "diverged":
            d["diverged"] += 1
        if drained(c, o):
            d["drained"] += 1
    return d


def nontrivial(case, obs, verdict):
    """a history is non-trivial when the model went through at least one of:
    overflow, steal, shared-first tick, idle pop, shared pop"""
    return any(t in verdict["tags"] for t in ("overflow", "steal", "tick61", "idle", "sharedpop"))
