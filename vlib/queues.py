"""History generators and Gallina printers shared by the queue properties C03-C06 (ordered queue)."""
from .core import gz, glist, gbool

I64MAX = 2**63 - 1
I64MIN = -2**63
EXTREMES = [I64MIN, I64MIN + 1, -1, 0, 1, I64MAX - 1, I64MAX]


class Hist:
    def __init__(self, rng, locals_, cap, handles=None):
        self.rng = rng
        self.n = locals_
        self.cap = cap
        self.ops = []
        self.next_item = 1
        self.nh = 0
        self.pushed = 0
        for _ in range(self.n if handles is None else handles):
            self.new()

    def new(self):
        self.ops.append({"op": "new"})
        self.nh += 1

    def prio(self, style):
        r = self.rng
        if style == "ties":
            return r.choice([0, 0, 1, 1, 2])
        if style == "extreme":
            return r.choice(EXTREMES)
        if style == "flat":
            return 0
        k = r.random()
        if k < 0.25:
            return r.choice(EXTREMES)
        if k < 0.75:
            return r.randint(-2, 3)
        return r.randint(-10**6, 10**6)

    def item(self):
        x = self.next_item
        self.next_item += 1
        self.pushed += 1
        return x

    def gpush(self, style="mix"):
        self.ops.append({"op": "gpush", "p": str(self.prio(style)), "x": self.item()})

    def lpush(self, h, style="mix"):
        self.ops.append({"op": "lpush", "h": h, "p": str(self.prio(style)), "x": self.item()})

    def lpop(self, h, start=None):
        if start is None:
            start = self.rng.randrange(0, max(1, self.n))
        self.ops.append({"op": "lpop", "h": h, "start": start})

    def gpop(self):
        self.ops.append({"op": "gpop"})

    def obs(self, kind, h=None):
        o = {"op": kind}
        if h is not None:
            o["h"] = h
        self.ops.append(o)

    def drain(self):
        """enough pops to empty everything, ending with one pop per handle and a shared pop"""
        rounds = self.pushed + 2
        for _ in range(rounds):
            for h in range(self.nh):
                self.lpop(h)
        for _ in range(2):
            self.gpop()
        for h in range(self.nh):
            self.lpop(h)
        self.gpop()
        self.ops.append({"op": "glen"})

    def case(self, kind, **extra):
        c = {"cfg": {"locals": self.n, "cap": self.cap}, "ops": self.ops, "kind": kind, "stream": True,
             "nh": self.nh}
        c.update(extra)
        return c


def random_history(rng, length, style="mix", caps=None, drain=False, kind="random"):
    n = rng.choice([1, 2, 2, 3])
    cap = rng.choice(caps or [0, 1, 2, 3, 4, 4, 5, 7, 8, 9, 64])
    h = Hist(rng, n, cap, handles=n if rng.random() < 0.9 else rng.randint(1, n))
    for _ in range(length):
        k = rng.random()
        hh = rng.randrange(h.nh)
        if k < 0.35:
            h.lpush(hh, style)
        elif k < 0.45:
            h.gpush(style)
        elif k < 0.80:
            h.lpop(hh)
        elif k < 0.86:
            h.gpop()
        elif k < 0.90:
            h.obs("glen")
        elif k < 0.95:
            h.obs("llen", hh)
        else:
            h.obs("flen", hh)
    if drain:
        h.drain()
    return h.case(kind, drain=drain)


def fill_steal_fill(rng):
    """C04/C06 bias: one handle fills up, siblings steal, the victim pushes and pops again."""
    n = rng.choice([2, 2, 3, 4])
    cap = rng.choice([1, 2, 3, 4, 4, 5, 6, 8])
    h = Hist(rng, n, cap)
    victim = rng.randrange(n)
    style = rng.choice(["flat", "ties", "mix"])
    for _ in range(rng.randint(max(1, cap - 1), cap + 2)):
        h.lpush(victim, style)
    for _ in range(rng.randint(1, cap + 1)):
        t = rng.choice([x for x in range(n) if x != victim])
        h.lpop(t, start=victim if rng.random() < 0.8 else None)
    h.obs("llen", victim)
    for _ in range(rng.randint(1, cap + 2)):
        k = rng.random()
        if k < 0.5:
            h.lpush(victim, style)
        elif k < 0.8:
            h.lpop(victim)
        else:
            h.lpop(rng.randrange(n))
    h.drain()
    return h.case("fill_steal_fill", drain=True)


def thief_fills(rng):
    """C05 bias: a handle whose FIRST contact with a priority is a steal (the ring for that priority is
    created on the steal path), which then queues up to `cap` items of that same priority itself and pops
    them: everything must come back in priority/arrival order with nothing pushed aside."""
    n = rng.choice([2, 2, 3])
    cap = rng.choice([4, 8, 8, 16])
    h = Hist(rng, n, cap)
    victim, thief = 0, 1
    p = rng.choice([0, 5, -3, EXTREMES[0], EXTREMES[-1]])
    for _ in range(rng.randint(1, 3)):
        h.ops.append({"op": "lpush", "h": victim, "p": str(p), "x": h.item()})
    h.lpop(thief, start=victim)                      # steals: the thief's ring for p is born here
    queued = rng.randint(cap // 2, cap - 1)
    for i in range(queued):
        q = p if rng.random() < 0.85 else rng.choice([p, 0, 1, EXTREMES[-1]])
        h.ops.append({"op": "lpush", "h": thief, "p": str(q), "x": h.item()})
    h.obs("llen", thief)
    for _ in range(queued + 2):
        h.lpop(thief, start=thief)
    h.drain()
    return h.case("thief_fills", drain=True)


def single_worker(rng):
    """C05 bias: one handle, never more than cap queued, many ties and extremes."""
    cap = rng.choice([1, 2, 3, 4, 8, 16, 64])
    h = Hist(rng, rng.choice([1, 1, 2]), cap, handles=1)
    style = rng.choice(["ties", "extreme", "mix"])
    pending = 0
    for _ in range(rng.randint(5, 60)):
        if pending < cap and rng.random() < 0.6:
            h.lpush(0, style)
            pending += 1
        else:
            h.lpop(0)
            pending = max(0, pending - 1)
    for _ in range(pending + 1):
        h.lpop(0)
    return h.case("single_worker", drain=False)


def starvation(rng):
    """C06 bias: a handle that never runs empty pops 130-200 times while items sit in the shared queue."""
    n = rng.choice([1, 2])
    cap = rng.choice([4, 8, 64])
    h = Hist(rng, n, cap)
    for _ in range(rng.randint(1, 3)):
        h.gpush("mix")
    w = rng.randrange(n)
    pops = rng.randint(130, 200)
    queued = 0
    for _ in range(pops):
        while queued < 2:
            h.lpush(w, "mix")
            queued += 1
        h.lpop(w)
        queued -= 1
        if rng.random() < 0.02:
            h.gpush("mix")
    h.drain()
    return h.case("starvation", drain=True)


def thief_starvation(rng):
    """C06 bias: a handle that keeps running dry and is fed by stealing from a sibling (or by bursts of
    its own pushes) pops 130-200 times while an item sits in the shared queue."""
    n = rng.choice([2, 2, 3])
    cap = rng.choice([4, 8, 64])
    h = Hist(rng, n, cap)
    thief = rng.randrange(n)
    victim = rng.choice([x for x in range(n) if x != thief])
    h.gpush("mix")
    burst = rng.choice([0, 0, 3, 10, 40])
    pops = rng.randint(130, 200)
    own = 0
    for i in range(pops):
        if burst and i % (burst + 3) == 0:
            for _ in range(min(burst, cap - 1)):
                h.lpush(thief, "mix")
                own += 1
        if own == 0:
            h.lpush(victim, "mix")      # one stealable item for the next dry pop
        else:
            own -= 1
        h.lpop(thief, start=victim if rng.random() < 0.8 else None)
        if rng.random() < 0.02:
            h.gpush("mix")
    h.drain()
    return h.case("thief_starvation", drain=True)


def op_term(o):
    k = o["op"]
    if k == "gpush":
        return "GPush %s %s" % (gz(o["p"]), gz(o["x"]))
    if k == "gpop":
        return "GPop"
    if k == "glen":
        return "GLen"
    if k == "new":
        return "NewHandle"
    if k == "lpush":
        return "LPush %d %s %s" % (o["h"], gz(o["p"]), gz(o["x"]))
    if k == "lpop":
        return "LPop %d %d" % (o["h"], o["start"])
    if k == "llen":
        return "LLen %d" % o["h"]
    if k == "flen":
        return "FullLen %d" % o["h"]
    raise ValueError(k)


def obs_term(v):
    if v == "unit":
        return "OUnit"
    if v == "bad":
        return "OBad"
    if v == "diverged":
        return "ODiverged"
    if isinstance(v, dict) and "item" in v:
        return "OItem None" if v["item"] is None else "OItem (Some %s)" % gz(v["item"])
    if isinstance(v, dict) and "num" in v:
        return "ONum %s" % gz(v["num"])
    return "OBad"  # aborted:<sig>, harness-lost ... : never equal to a model observation of a wf op


def drained(case, obs):
    """history ends with an idle pop on every handle and an empty shared pop (see Hist.drain)"""
    if not case.get("drain"):
        return False
    k = case["nh"] + 2  # nh lpops, gpop, glen
    if len(obs) != len(case["ops"]) or len(obs) < k:
        return False
    tail = obs[-k:-1]
    return all(isinstance(v, dict) and "item" in v and v["item"] is None for v in tail)


def term(case, obs):
    ops = case["ops"][:len(obs)] if obs and obs[-1] == "diverged" else case["ops"]
    return ("{| q_locals := %d; q_cap := %s; q_ops := %s; q_impl := %s |}"
            % (case["cfg"]["locals"], gz(case["cfg"]["cap"]), glist([op_term(o) for o in ops]),
               glist([obs_term(v) for v in obs])))


def distribution(results):
    d = {"kinds": {}, "ops": {}, "diverged": 0, "lengths": {"min": None, "max": 0, "sum": 0}}
    for c, o, v in results:
        d["kinds"][c.get("kind", "?")] = d["kinds"].get(c.get("kind", "?"), 0) + 1
        for op in c["ops"]:
            d["ops"][op["op"]] = d["ops"].get(op["op"], 0) + 1
        n = len(c["ops"])
        d["lengths"]["max"] = max(d["lengths"]["max"], n)
        d["lengths"]["min"] = n if d["lengths"]["min"] is None else min(d["lengths"]["min"], n)
        d["lengths"]["sum"] += n
        if o and o[-1] == "diverged":
            d["diverged"] += 1
    return d


def nontrivial(case, obs, verdict):
    """a history is non-trivial when the model went through at least one of:
    overflow, steal, shared-first tick, idle pop"""
    return any(t in verdict["tags"] for t in ("overflow", "steal", "tick61", "idle", "sharedpop"))
