"""Shared machinery for every property check: harness build/run, Coq build/evaluation,
verdict logic (DESIGN.md section 6), evidence and replay files."""
import fcntl
import hashlib
import json
import os
import random
import re
import shutil
import subprocess
import sys
import time
from concurrent.futures import ThreadPoolExecutor

VERIF = os.path.dirname(os.path.dirname(os.path.abspath(__file__)))
REPO = os.environ.get("VERIF_REPO", "/repo")
CACHE = os.path.join(VERIF, ".cache")
COQ = os.path.join(VERIF, "coq")
HARNESS = os.path.join(VERIF, "harness")
EVIDENCE = os.path.join(VERIF, "evidence")
REPLAYS = os.path.join(VERIF, "replays")
CORPUS = os.path.join(VERIF, "corpus")
KNOWN = os.path.join(VERIF, "known_findings.jsonl")
JOBS = int(os.environ.get("VERIF_JOBS", "16"))

FORBIDDEN = re.compile(
    r"\b(Admitted|admit|Axiom|Axioms|Parameter|Parameters|Conjecture|Conjectures|Hypothesis|Hypotheses|Variable|Variables)\b"
    r"|Unset\s+Guard|bypass_check|Admit\s+Obligations|type-in-type|impredicative-set|Unset\s+Universe|Unset\s+Positivity"
)
# axioms the development may depend on (standard-library ones only); anything else is an alarm
AXIOM_ALLOW = {
    "functional_extensionality_dep",
    "FunctionalExtensionality.functional_extensionality_dep",
    "proof_irrelevance",
    "Eqdep.Eq_rect_eq.eq_rect_eq",
    "Eq_rect_eq.eq_rect_eq",
    "JMeq_eq",
    "JMeq.JMeq_eq",
    "classic",
    "Classical_Prop.classic",
}


class BuildError(Exception):
    def __init__(self, what, log):
        super().__init__(what)
        self.what = what
        self.log = log


def ensure_dirs():
    for d in (CACHE, EVIDENCE, REPLAYS, os.path.join(CACHE, "cases"), os.path.join(CACHE, "locks")):
        os.makedirs(d, exist_ok=True)


class Lock:
    def __init__(self, name):
        ensure_dirs()
        self.path = os.path.join(CACHE, "locks", name)

    def __enter__(self):
        self.f = open(self.path, "w")
        fcntl.flock(self.f, fcntl.LOCK_EX)
        return self

    def __exit__(self, *a):
        fcntl.flock(self.f, fcntl.LOCK_UN)
        self.f.close()


# ------------------------------------------------------------------------------------ harness

def target_dir(features):
    name = "target" if not features else "target-" + "-".join(sorted(features))
    return os.path.join(CACHE, name)


def build_harness(features=(), release=False):
    """Build the harness against /repo's current working tree. Returns the binary path."""
    ensure_dirs()
    features = tuple(sorted(features))
    tdir = target_dir(features)
    with Lock("cargo-" + os.path.basename(tdir)):
        lock_src = os.path.join(REPO, "Cargo.lock")
        lock_dst = os.path.join(HARNESS, "Cargo.lock")
        try:
            if (not os.path.exists(lock_dst)) or _stale_lock(lock_src, lock_dst):
                shutil.copyfile(lock_src, lock_dst)
                with open(lock_dst + ".src-sha", "w") as f:
                    f.write(_sha(lock_src))
        except OSError as e:
            raise BuildError("cannot copy Cargo.lock", str(e))
        try:
            tmpl = open(os.path.join(HARNESS, "Cargo.toml.in")).read().replace("@REPO@", REPO)
            dst = os.path.join(HARNESS, "Cargo.toml")
            if (not os.path.exists(dst)) or open(dst).read() != tmpl:
                with open(dst, "w") as f:
                    f.write(tmpl)
        except OSError as e:
            raise BuildError("cannot write harness/Cargo.toml", str(e))
        env = dict(os.environ)
        env["VERIF_REPO"] = REPO
        env["CARGO_TARGET_DIR"] = tdir
        env["CARGO_NET_OFFLINE"] = "true"
        env.pop("RUSTFLAGS", None)
        cmd = ["cargo", "build", "--offline", "--quiet"]
        if release:
            cmd.append("--release")
        if features:
            cmd += ["--features", ",".join(features)]
        t0 = time.time()
        p = subprocess.run(cmd, cwd=HARNESS, env=env, capture_output=True, text=True, timeout=1500)
        if p.returncode != 0:
            raise BuildError("harness build failed against the current /repo tree", p.stdout + p.stderr)
        binp = os.path.join(tdir, "release" if release else "debug", "ocv")
        return binp, time.time() - t0


def _sha(path):
    with open(path, "rb") as f:
        return hashlib.sha256(f.read()).hexdigest()


def _stale_lock(src, dst):
    try:
        with open(dst + ".src-sha") as f:
            return f.read().strip() != _sha(src)
    except OSError:
        return True


def run_harness(binp, area, cases, isolate=False, timeout_ms=5000, jobs=None, extra=(), batch_timeout=180):
    """Run cases (list of dicts with unique 'id') through `ocv <area>`; returns {id: obs list}.
    A non-isolated batch that dies is re-run isolated so that the culprit case is pinned."""
    jobs = jobs or JOBS
    if not cases:
        return {}
    shards = [cases[i::jobs] for i in range(jobs)]
    shards = [s for s in shards if s]

    def run_shard(shard, iso):
        cmd = [binp, area]
        if iso:
            cmd += ["--isolate", "--timeout-ms", str(timeout_ms)]
        cmd += list(extra)
        inp = "".join(json.dumps(c) + "\n" for c in shard)
        try:
            p = subprocess.run(cmd, input=inp, capture_output=True, text=True, timeout=batch_timeout)
            out = p.stdout
            rc = p.returncode
        except subprocess.TimeoutExpired as e:
            out = e.stdout.decode() if isinstance(e.stdout, bytes) else (e.stdout or "")
            rc = -999
        res = {}
        for line in out.splitlines():
            if line.startswith("F "):
                try:
                    o = json.loads(line[2:])
                    res[o["id"]] = o["obs"]
                except Exception:
                    pass
        return rc, res

    results = {}
    with ThreadPoolExecutor(max_workers=len(shards)) as ex:
        futs = [(s, ex.submit(run_shard, s, isolate)) for s in shards]
        for shard, fut in futs:
            rc, res = fut.result()
            results.update(res)
            missing = [c for c in shard if c["id"] not in res]
            if missing and not isolate:
                rc2, res2 = run_shard(missing, True)
                results.update(res2)
                missing = [c for c in missing if c["id"] not in res2]
            for c in missing:
                results[c["id"]] = ["harness-lost"]
    return results


# ---------------------------------------------------------------------------------------- coq

def coq_makefile():
    with Lock("coq"):
        _coq_makefile_locked()


def _coq_makefile_locked():
    vs = []
    for root, _, files in os.walk(os.path.join(COQ, "theories")):
        for f in files:
            if f.endswith(".v"):
                vs.append(os.path.relpath(os.path.join(root, f), COQ))
    vs.sort()
    listing = "\n".join(vs)
    stamp = os.path.join(CACHE, "coq-files.txt")
    old = open(stamp).read() if os.path.exists(stamp) else None
    if old != listing or not os.path.exists(os.path.join(COQ, "Makefile")):
        p = subprocess.run(["coq_makefile", "-f", "_CoqProject", "-o", "Makefile"] + vs, cwd=COQ,
                           capture_output=True, text=True)
        if p.returncode != 0:
            raise BuildError("coq_makefile failed", p.stdout + p.stderr)
        with open(stamp, "w") as f:
            f.write(listing)


def coq_make(targets, timeout=1500, force=()):
    """make the given .vo targets (full .vo build, never -vos). `force` targets are rebuilt so that
    their Print Assumptions output is captured on this run."""
    ensure_dirs()
    with Lock("coq"):
        _coq_makefile_locked()
        for t in force:
            for ext in (".vo", ".vok", ".vos", ".glob"):
                try:
                    os.remove(os.path.join(COQ, t[:-3] + ext))
                except OSError:
                    pass
        cmd = ["timeout", str(timeout), "make", "-j%d" % JOBS] + list(targets)
        p = subprocess.run(cmd, cwd=COQ, capture_output=True, text=True)
        return p.returncode, p.stdout + "\n" + p.stderr


def scan_forbidden():
    """grep the whole development for forbidden vernacular. Returns list of 'file:line: text'."""
    hits = []
    for root, _, files in os.walk(os.path.join(COQ, "theories")):
        for f in files:
            if not f.endswith(".v"):
                continue
            path = os.path.join(root, f)
            in_section = 0
            text = open(path).read()
            text_nc = strip_comments(text)
            for i, line in enumerate(text_nc.splitlines(), 1):
                if re.match(r"\s*Section\b", line):
                    in_section += 1
                if re.match(r"\s*End\b", line) and in_section > 0:
                    in_section -= 1
                m = FORBIDDEN.search(line)
                if m:
                    word = m.group(0)
                    if in_section > 0 and word in ("Variable", "Variables", "Hypothesis", "Hypotheses"):
                        continue
                    hits.append("%s:%d: %s" % (os.path.relpath(path, VERIF), i, line.strip()))
    return hits


def strip_comments(text):
    out = []
    depth = 0
    i = 0
    n = len(text)
    while i < n:
        if text.startswith("(*", i):
            depth += 1
            i += 2
        elif text.startswith("*)", i) and depth > 0:
            depth -= 1
            i += 2
        else:
            if depth == 0:
                out.append(text[i])
            elif text[i] == "\n":
                out.append("\n")
            i += 1
    return "".join(out)


def parse_assumptions(output):
    """Split the output of a Props file into one block per Print Assumptions."""
    blocks = []
    cur = None
    for line in output.splitlines():
        if line.startswith("Closed under the global context"):
            blocks.append([])
            cur = None
        elif line.startswith("Axioms:"):
            cur = []
            blocks.append(cur)
        elif cur is not None:
            m = re.match(r"^([A-Za-z_][\w.']*)\s*:", line)
            if m:
                cur.append(m.group(1))
            elif line.startswith("COQC") or line.startswith("make"):
                cur = None
    return blocks


def check_proofs(prop_id, props_targets, theorems_expected=None):
    """Build the proof cone of the property, capture Print Assumptions, scan for forbidden tokens.
    Returns dict(ok, obligations, discharged, axioms, log, problems)."""
    t0 = time.time()
    problems = []
    rc, out = coq_make(props_targets, force=props_targets)
    ok = rc == 0
    if not ok:
        problems.append("proof build failed: " + tail(out, 30))
    blocks = parse_assumptions(out)
    axioms = sorted({a for b in blocks for a in b})
    bad = [a for a in axioms if a not in AXIOM_ALLOW and a.split(".")[-1] not in AXIOM_ALLOW]
    if bad:
        ok = False
        problems.append("axioms outside the allow-list: " + ", ".join(bad))
    hits = scan_forbidden()
    if hits:
        ok = False
        problems.append("forbidden vernacular: " + "; ".join(hits[:5]))
    # obligations = Theorem statements in the Props files
    names = []
    for t in props_targets:
        src = os.path.join(COQ, t[:-3] + ".v")
        if os.path.exists(src):
            names += re.findall(r"^\s*(?:Theorem|Corollary)\s+([\w']+)", strip_comments(open(src).read()), re.M)
    obligations = len(names)
    if theorems_expected:
        missing = [n for n in theorems_expected if n not in names]
        if missing:
            ok = False
            problems.append("pinned theorems missing from Props: " + ", ".join(missing))
    if obligations and len(blocks) < obligations and rc == 0:
        ok = False
        problems.append("Print Assumptions seen for %d of %d theorems" % (len(blocks), obligations))
    return {
        "ok": ok,
        "obligations": obligations,
        "discharged": obligations if rc == 0 else 0,
        "theorems": names,
        "axioms": axioms,
        "problems": problems,
        "log": out,
        "wall_s": time.time() - t0,
    }


def coqchk(props_targets, timeout=2400):
    """Independent re-check of the compiled proofs (thorough tier): `coqchk -o -silent` on the
    property's Props modules. Returns dict(ok, axioms, log)."""
    mods = ["OCV." + t[len("theories/"):-3].replace("/", ".") for t in props_targets]
    with Lock("coq"):
        p = subprocess.run(["timeout", str(timeout), "coqchk", "-o", "-silent", "-Q", "theories", "OCV"] + mods,
                           cwd=COQ, capture_output=True, text=True)
    out = p.stdout + p.stderr
    axioms = []
    m = re.search(r"\* Axioms:(.*?)\n\s*\n\* Constants/Inductives relying on type-in-type:(.*?)\n\s*\n\* Constants/Inductives relying on unsafe \(co\)fixpoints:(.*?)\n\s*\n\* Inductives whose positivity is assumed:(.*?)\n", out, re.S)
    clean = False
    if m:
        ax = m.group(1).strip()
        axioms = [] if ax == "<none>" else [a.strip() for a in ax.split("\n") if a.strip()]
        clean = all(g.strip() == "<none>" for g in (m.group(2), m.group(3), m.group(4)))
    bad = [a for a in axioms if a not in AXIOM_ALLOW and a.split(".")[-1] not in AXIOM_ALLOW]
    return {"ok": p.returncode == 0 and m is not None and clean and not bad, "axioms": axioms, "log": tail(out, 25)}


def tail(s, n):
    return "\n".join(s.splitlines()[-n:])


def coq_eval(prop_id, module, terms, header="", shard_size=150, timeout=900):
    """Evaluate `judge` from OCV.<module> on Gallina case terms; returns list of verdict dicts
    (same order) or raises BuildError. Sharded over parallel coqc processes."""
    ensure_dirs()
    if not terms:
        return []
    # the Cases module must be compiled first
    target = "theories/" + module.replace(".", "/") + ".vo"
    rc, out = coq_make([target])
    if rc != 0:
        raise BuildError("cannot build " + target, out)
    d = os.path.join(CACHE, "cases", prop_id + "-" + str(os.getpid()))
    shutil.rmtree(d, ignore_errors=True)
    os.makedirs(d)
    nshards = max(1, min(JOBS, (len(terms) + shard_size - 1) // shard_size))
    per = (len(terms) + nshards - 1) // nshards
    shards = [terms[i:i + per] for i in range(0, len(terms), per)]

    def run(k, shard):
        name = "cases_%s_%d" % (prop_id, k)
        path = os.path.join(d, name + ".v")
        with open(path, "w") as f:
            f.write("From Coq Require Import String.\n")
            f.write("From OCV Require Import Base.Prelude %s.\n" % module)
            f.write(header + "\n")
            f.write("Open Scope string_scope.\nOpen Scope Z_scope.\n")
            f.write("Definition cases := [\n  ")
            f.write(";\n  ".join(shard))
            f.write("\n].\n")
            f.write("Eval vm_compute in (verdict_lines (map judge cases)).\n")
        cmd = ["timeout", str(timeout), "coqc", "-noglob", "-Q", os.path.join(COQ, "theories"), "OCV",
               "-w", "-notation-overridden", path]
        p = subprocess.run(cmd, cwd=d, capture_output=True, text=True)
        if p.returncode != 0:
            raise BuildError("coqc failed on generated cases (shard %d)" % k, tail(p.stdout + p.stderr, 40))
        return parse_verdicts(p.stdout, len(shard))

    res = []
    with ThreadPoolExecutor(max_workers=len(shards)) as ex:
        for r in ex.map(lambda a: run(*a), list(enumerate(shards))):
            res += r
    shutil.rmtree(d, ignore_errors=True)
    return res


def parse_verdicts(out, n):
    i = out.find('= "')
    j = out.rfind('"')
    if i < 0 or j <= i:
        raise BuildError("cannot parse coq output", out[:2000])
    body = out[i + 3:j]
    lines = body.split("\n")
    res = []
    for line in lines:
        m = re.match(r"^c=([01]) p=([01]) t=([^ ]*) n=(.*)$", line.strip())
        if not m:
            raise BuildError("bad verdict line", line)
        res.append({
            "corr": m.group(1) == "1",
            "prop": m.group(2) == "1",
            "tags": [t for t in m.group(3).split(",") if t],
            "note": m.group(4),
        })
    if len(res) != n:
        raise BuildError("verdict count mismatch (%d vs %d)" % (len(res), n), out[:2000])
    return res


# ----------------------------------------------------------------------------- Gallina printing

def gz(n):
    n = int(n)
    return "(%d)" % n if n < 0 else str(n)


def glist(items):
    return "[" + "; ".join(items) + "]"


def gbool(b):
    return "true" if b else "false"


def gstr(s):
    return '"' + str(s).replace('"', '""') + '"%string'


def gopt(x, f=lambda v: v):
    return "None" if x is None else "(Some %s)" % f(x)


# ------------------------------------------------------------------------------ known findings

def load_known(prop_id):
    known = []
    if os.path.exists(KNOWN):
        for line in open(KNOWN):
            line = line.strip()
            if not line:
                continue
            k = json.loads(line)
            if k.get("property") == prop_id:
                known.append(k)
    return known


def load_corpus(prop_id):
    d = os.path.join(CORPUS, prop_id)
    cases = []
    if os.path.isdir(d):
        for f in sorted(os.listdir(d)):
            if f.endswith(".json"):
                c = json.load(open(os.path.join(d, f)))
                if isinstance(c, list):
                    cases += c
                else:
                    cases.append(c)
    return cases


# ------------------------------------------------------------------------------------ evidence

def write_evidence(prop_id, ev):
    ensure_dirs()
    path = os.path.join(EVIDENCE, prop_id + ".json")
    tmp = path + ".tmp"
    with open(tmp, "w") as f:
        json.dump(ev, f, indent=1, sort_keys=True)
        f.write("\n")
    os.replace(tmp, path)


def write_replay(prop_id, seed, payload, suffix=""):
    ensure_dirs()
    path = os.path.join(REPLAYS, "%s-%s%s.json" % (prop_id, seed, suffix))
    with open(path, "w") as f:
        json.dump(payload, f, indent=1, sort_keys=True)
        f.write("\n")
    return path


def seed_from_env():
    try:
        return int(os.environ.get("VERIF_SEED", "0"))
    except ValueError:
        return 0
