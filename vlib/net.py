"""Helpers shared by the readiness properties (C20, C21)."""

# Coroutine names and their ids (std DefaultHasher of the name, fixed keys), found by a one-off search:
# LOW_IDS have a zero upper half (the only ids the 32-bit token fold used to get right).
LOW_IDS = {
    "v8553900357": 2200095451,
    "v14702704434": 2086041416,
    "v15146019252": 3393889097,
    "v23632269868": 623008220,
    "v24122155845": 440535360,
}
HIGH_IDS = {
    "c0": 942120192326464808,
    "c1": 4567369280270323402,
    "c2": 12602421584813332914,
    "c3": 6297203254532200539,
    "c4": 6090831622754858815,
    "c5": 14617749455527018248,
    "c6": 15128819530526934229,
    "c7": 11740447429360978880,
    "c8": 3872603765509645252,
    "c9": 15822142648549256741,
    "c10": 8579472844087713564,
    "c11": 17235756454872285341,
    "c12": 17975192542974996624,
    "c13": 5441184063932801972,
    "c14": 13712591878437130464,
    "c15": 835567933890295005,
}
ALL_IDS = dict(LOW_IDS)
ALL_IDS.update(HIGH_IDS)
