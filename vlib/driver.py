"""Generic driver: runs one property end to end and decides the verdict (DESIGN.md section 6)."""
import copy
import json
import os
import random
import sys
import time

from . import core


def _case_key(mod, case):
    if hasattr(mod, "key"):
        return mod.key(case)
    c = {k: v for k, v in case.items() if k not in ("id", "origin")}
    return json.dumps(c, sort_keys=True)


def _group_key(mod, case):
    return (
        case.get("area", getattr(mod, "AREA", None)),
        bool(case.get("isolate", getattr(mod, "ISOLATE", False))),
        tuple(case.get("features", getattr(mod, "FEATURES", ()))),
        int(case.get("timeout_ms", getattr(mod, "TIMEOUT_MS", 5000))),
        bool(case.get("release", False)),
        tuple(case.get("extra", getattr(mod, "EXTRA", ()))),
    )


def run_impl(mod, cases, build_cache):
    """Run cases on the real code. Returns ({id: obs}, build seconds)."""
    groups = {}
    for c in cases:
        groups.setdefault(_group_key(mod, c), []).append(c)
    res = {}
    bsec = 0.0
    for (area, isolate, features, timeout_ms, release, extra), cs in groups.items():
        bk = (features, release)
        if bk not in build_cache:
            binp, secs = core.build_harness(features, release)
            build_cache[bk] = binp
            bsec += secs
        jobs = getattr(mod, "HARNESS_JOBS", None)
        r1 = core.run_harness(build_cache[bk], area, cs, isolate=isolate, timeout_ms=timeout_ms,
                              extra=extra, jobs=jobs)
        # a watchdog expiry on a loaded machine is not a divergence: confirm each one alone, with
        # four times the budget, before it becomes an observation
        again = [c for c in cs if isolate and "diverged" in [x for x in r1.get(c["id"], []) if isinstance(x, str)]]
        if again:
            r2 = core.run_harness(build_cache[bk], area, again, isolate=True, timeout_ms=timeout_ms * 3,
                                  extra=extra, jobs=6)
            r1.update(r2)
        res.update(r1)
    return res, bsec


def evaluate(mod, cases, build_cache):
    """impl run + coq judge; returns list of (case, obs, verdict)."""
    obs, bsec = run_impl(mod, cases, build_cache)
    terms = [mod.term(c, obs[c["id"]]) for c in cases]
    verdicts = core.coq_eval(mod.ID, mod.CASES_MODULE, terms, header=getattr(mod, "HEADER", ""),
                             shard_size=getattr(mod, "SHARD_SIZE", 150))
    return [(c, obs[c["id"]], v) for c, v in zip(cases, verdicts)], bsec


def ddmin(items, pred, budget=24):
    """Delta debugging on a list; pred(list) -> True if still failing. Bounded number of calls."""
    calls = [0]

    def test(x):
        if calls[0] >= budget:
            return False
        calls[0] += 1
        try:
            return pred(x)
        except Exception:
            return False

    n = 2
    cur = list(items)
    while len(cur) >= 2 and calls[0] < budget:
        chunk = max(1, len(cur) // n)
        reduced = False
        for i in range(0, len(cur), chunk):
            cand = cur[:i] + cur[i + chunk:]
            if cand and test(cand):
                cur = cand
                n = max(n - 1, 2)
                reduced = True
                break
        if not reduced:
            if chunk == 1:
                break
            n = min(n * 2, len(cur))
    return cur


def is_known(verdict, known):
    """A failing case counts as a listed finding when the code still fails the listed way: the
    model agrees with the implementation on the case and the model raised the listed defect tag."""
    if not verdict["corr"]:
        return None
    for k in known:
        if k.get("status") == "known" and k.get("defect") in verdict["tags"]:
            return k
    return None


def main_property(mod, tier, seed, replay=None, out=sys.stdout):
    t0 = time.time()
    core.ensure_dirs()
    pid = mod.ID
    rng = random.Random((seed * 1000003 + sum(map(ord, pid))) & 0xFFFFFFFF)
    known = core.load_known(pid)
    build_cache = {}
    lines = []
    problems = []
    level = getattr(mod, "LEVEL", "proof")

    def emit(s):
        print(s, file=out, flush=True)

    # ---- 1. proofs
    proofs = core.check_proofs(pid, mod.PROPS, getattr(mod, "PINNED", None))
    P = proofs["ok"]
    if not P:
        problems += proofs["problems"]
    chk = None
    if P and tier == "thorough" and not replay:
        chk = core.coqchk(mod.PROPS)
        if not chk["ok"]:
            P = False
            proofs["problems"].append("coqchk rejected the compiled proofs: " + chk["log"])
            problems += proofs["problems"]

    # ---- 2. cases
    if replay:
        payload = json.load(open(replay))
        cases = payload.get("cases") or [payload["case"]]
    else:
        cases = []
        for c in core.load_corpus(pid):
            c = dict(c)
            c["origin"] = "corpus"
            cases.append(c)
        for c in mod.gen(rng, tier):
            c.setdefault("origin", "gen")
            cases.append(c)
    for i, c in enumerate(cases):
        c["id"] = i

    harness_error = None
    results = []
    bsec = 0.0
    try:
        results, bsec = evaluate(mod, cases, build_cache)
    except core.BuildError as e:
        harness_error = e

    if replay:
        for c, o, v in results:
            emit("case   : " + json.dumps({k: c[k] for k in c if k not in ("id",)}))
            emit("impl   : " + json.dumps(o))
            emit("verdict: " + json.dumps(v))
        if harness_error:
            emit("error: %s\n%s" % (harness_error.what, core.tail(harness_error.log, 40)))
            return 1
        bad = [1 for c, o, v in results if not v["prop"] and not is_known(v, known)]
        return 1 if bad else 0

    V = [(c, o, v) for c, o, v in results if not v["prop"]]
    K = [(c, o, v, is_known(v, known)) for c, o, v in V]
    unknown = [(c, o, v) for c, o, v, k in K if k is None]
    mism = [(c, o, v) for c, o, v in results if not v["corr"]]
    extra_findings = []
    extra_info = {}
    if hasattr(mod, "extra") and harness_error is None:
        # property-specific supporting runs (real time, stress); may add violations
        try:
            ex = mod.extra(tier, rng, build_cache, known)
            extra_info = ex.get("info", {})
            for viol in ex.get("violations", []):
                unknown.append((viol["case"], viol.get("obs"), {"corr": True, "prop": False, "tags": viol.get("tags", []), "note": viol.get("note", "")}))
            extra_findings = ex.get("known_reproduced", [])
        except core.BuildError as e:
            harness_error = e

    exit_code = 0
    violations = 0
    replay_path = None
    if unknown:
        violations = len(unknown)
        c, o, v = unknown[0]
        shrunk = c
        skey = getattr(mod, "SHRINK_KEY", "ops")
        if skey and isinstance(c.get(skey), list) and len(c[skey]) > 1 and c.get("origin") != "extra":
            def still(xs):
                cc = copy.deepcopy(c)
                cc[skey] = xs
                cc["id"] = 0
                r, _ = evaluate(mod, [cc], build_cache)
                vv = r[0][2]
                # same kind of failure: do not trade a property failure for a malformed case
                return (not vv["prop"]) and is_known(vv, known) is None and vv["corr"] == v["corr"]
            try:
                m = ddmin(c[skey], still, budget=12)
                if len(m) < len(c[skey]):
                    shrunk = copy.deepcopy(c)
                    shrunk[skey] = m
                    shrunk["id"] = 0
                    r, _ = evaluate(mod, [shrunk], build_cache)
                    o, v = r[0][1], r[0][2]
            except Exception:
                pass
        replay_path = core.write_replay(pid, seed, {
            "property": pid, "kind": "failing-input", "case": shrunk, "original_case": c,
            "impl_obs": o, "verdict": v,
            "replay_cmd": "./check %s --replay <this file>" % pid,
        })
        emit("VIOLATION property=%s replay=%s" % (pid, replay_path))
        exit_code = 1
    elif (not P) or mism or harness_error:
        # SEARCH for a failing input with a larger budget, judging the property only
        found = None
        if harness_error is None:
            try:
                rng2 = random.Random(rng.getrandbits(32))
                more = []
                for c, o, v in mism[:20]:
                    if hasattr(mod, "mutate"):
                        more += mod.mutate(rng2, c)
                more += mod.gen(rng2, "search")
                for i, c in enumerate(more):
                    c["id"] = i
                    c.setdefault("origin", "search")
                r2, _ = evaluate(mod, more, build_cache)
                for c, o, v in r2:
                    if not v["prop"] and is_known(v, known) is None:
                        found = (c, o, v)
                        break
            except core.BuildError as e:
                harness_error = e
        if found:
            c, o, v = found
            replay_path = core.write_replay(pid, seed, {
                "property": pid, "kind": "failing-input", "case": c, "impl_obs": o, "verdict": v,
                "replay_cmd": "./check %s --replay <this file>" % pid})
            emit("VIOLATION property=%s replay=%s" % (pid, replay_path))
            violations = 1
        else:
            what = {}
            if not P:
                what["theorem"] = proofs["problems"]
            if mism:
                c, o, v = mism[0]
                what["correspondence"] = {"name": "corr:" + pid, "case": c, "impl_obs": o, "verdict": v,
                                          "mismatching_cases": len(mism)}
            if harness_error:
                what["harness"] = {"what": harness_error.what, "log": core.tail(harness_error.log, 60)}
            replay_path = core.write_replay(pid, seed, {
                "property": pid, "kind": "no-failing-input-found", "broken": what}, suffix="-unproved")
            emit("VIOLATION property=%s replay=%s no-failing-input-found" % (pid, replay_path))
            violations = 1
        exit_code = 1

    # known findings reproduced on this run
    reproduced = {}
    for c, o, v, k in K:
        if k is not None:
            reproduced.setdefault(k["defect"], k)
    for k in extra_findings:
        reproduced.setdefault(k["defect"], k)
    if exit_code == 0:
        for d, k in sorted(reproduced.items()):
            emit("KNOWN-FINDING: property=%s %s" % (pid, k.get("what", d)))

    # ---- evidence
    seen = set()
    nontrivial = 0
    tagcount = {}
    for c, o, v in results:
        for t in v["tags"]:
            tagcount[t] = tagcount.get(t, 0) + 1
        kk = _case_key(mod, c)
        if kk in seen:
            continue
        seen.add(kk)
        if mod.nontrivial(c, o, v) if hasattr(mod, "nontrivial") else True:
            nontrivial += 1
    samples = []
    for c, o, v in results[:3] + results[-2:]:
        samples.append({"case": {k: c[k] for k in c if k != "id"}, "impl_obs": o, "verdict": v})
    cov = {
        "obligations": proofs["obligations"],
        "discharged": proofs["discharged"] if P else 0,
        "checker_cmd": "make (coqc 8.16.1, full .vo) " + " ".join(mod.PROPS)
                       + " ; Print Assumptions per theorem ; forbidden-vernacular scan",
        "trusted_base": getattr(mod, "TRUSTED", []) + [
            "Coq 8.16.1 kernel incl. vm_compute (no native_compute)",
            "axioms reported by Print Assumptions on this run: " + (", ".join(proofs["axioms"]) or "none"),
            "correspondence harness (vlib/*.py printers, harness/src/areas/*), hooks listed in MANIFEST.hooks",
        ],
        "theorems": proofs["theorems"],
        "evaluations": len(results),
        "distinct_nontrivial": nontrivial,
        "rule": getattr(mod, "RULE", ""),
        "samples": samples,
        "traces_validated_against_impl": len(results),
        "correspondence_mismatches": len(mism),
        "oracle_failures": len(V),
        "known_findings_reproduced": sorted(reproduced.keys()),
        "model_branch_tags": tagcount,
        "proof_wall_s": round(proofs["wall_s"], 2),
        "coqchk": ("not run (quick tier)" if chk is None else
                   {"ok": chk["ok"], "axioms": chk["axioms"], "cmd": "coqchk -o -silent -Q theories OCV <Props modules>"}),
        "harness_build_s": round(bsec, 2),
    }
    if hasattr(mod, "distribution"):
        try:
            cov["input_distribution"] = mod.distribution(results)
        except Exception as e:  # never let statistics break a check
            cov["input_distribution"] = {"error": str(e)}
    cov.update(extra_info)
    ev = {
        "property_id": pid,
        "tier": tier if tier in ("quick", "thorough") else "quick",
        "seed": seed,
        "level": level,
        "coverage": cov,
        "assumptions": getattr(mod, "ASSUMPTIONS", []),
        "wall_s": round(time.time() - t0, 2),
        "violations": violations,
    }
    core.write_evidence(pid, ev)
    emit("%s: proofs=%s theorems=%d cases=%d nontrivial=%d mismatches=%d oracle_failures=%d known=%s wall=%.1fs"
         % (pid, "ok" if P else "BROKEN", proofs["obligations"], len(results), nontrivial, len(mism), len(V),
            ",".join(sorted(reproduced.keys())) or "-", time.time() - t0))
    return exit_code
