"""Case generators and Gallina printers shared by C16, C17, C18 (hooked socket I/O loops, area `sockio`)."""
from .core import gz, glist, gbool

U64 = 2**64 - 1
SHAPES = {
    "read": "(SBuf Rd)", "recv": "(SBuf Rd)", "write": "(SBuf Wr)", "send": "(SBuf Wr)",
    "readv": "(SVec Rd FIov)", "writev": "(SVec Wr FIov)",
    "recvmsg": "(SVec Rd FMsg)", "sendmsg": "(SVec Wr FMsg)",
    "accept": "SAccept", "connect": "SConnect",
}
BUF = ["read", "recv", "write", "send"]
VEC = ["readv", "writev", "recvmsg", "sendmsg"]
LIMITS_MS = [0, 0, 300, 1000, 5000]
HARD_ERRNOS = [104, 32, 9, 110, 107, 11, 4]
NATCAP = 4000  # nat literals stay small; larger values can only come from a broken implementation


def limit_ns(ms):
    return U64 if ms == 0 else ms * 10**6


def _dt(rng, lim_ms):
    if lim_ms == 0:
        return rng.choice([0, 0, 0, 10**6, 10**12])
    ns = lim_ms * 10**6
    return rng.choice([0, 0, 0, 0, ns // 3, ns // 2, ns - 1, ns, ns + 1, 2 * ns])


def _fail(rng):
    return {"r": "fail", "n": rng.choice(HARD_ERRNOS)}


def gen_script(rng, segs, lim_ms, vectored, wb_bias=0.25, maxlen=7):
    """Guided script: knows how the loops advance (a call goes on after a transfer only when the
    transfer completes the current segment), so that long retry/spill sequences are common."""
    script = []
    filled = 0
    total = sum(segs)
    bounds = []
    acc = 0
    for l in segs:
        acc += l
        bounds.append(acc)
    n = rng.randint(0, maxlen)
    for _ in range(n):
        k = rng.random()
        e = {"dt": str(_dt(rng, lim_ms))}
        if k < wb_bias:
            e["r"] = "wouldblock"
        elif k < wb_bias + 0.15:
            e["r"] = "eintr"
        elif k < wb_bias + 0.22:
            e.update(_fail(rng))
        else:
            e["r"] = "moved"
            nxt = [b for b in bounds if b > filled]
            cur_rem = (nxt[0] - filled) if nxt else 0
            c = rng.random()
            if c < 0.08:
                m = 0                                  # end of stream / nothing accepted
            elif c < 0.35 and cur_rem > 0:
                m = cur_rem                            # exactly completes the current segment
            elif c < 0.65 and cur_rem > 0 and vectored:
                m = cur_rem + rng.randint(1, 4)        # spills into the following segments
            elif c < 0.80 and cur_rem > 1:
                m = rng.randint(1, cur_rem - 1)        # partial: ends the call
            elif c < 0.90:
                m = max(0, total - filled)             # everything that is left
            else:
                m = rng.randint(1, total + 3)          # more than fits is clipped by the kernel
            e["n"] = m
            filled = min(total, filled + m)
        script.append(e)
    return script


def gen_chain(rng, segs, lim_ms):
    """Vectored calls that go on for several kernel calls: each transfer completes the current segment
    (or spills into later ones), retries in between, and a chosen ending."""
    script = []
    filled = 0
    bounds = []
    acc = 0
    for l in segs:
        acc += l
        bounds.append(acc)
    total = acc
    steps = rng.randint(1, 4)
    for _ in range(steps):
        for _ in range(rng.choice([0, 0, 1, 1, 2, 3])):
            script.append({"dt": str(_dt(rng, lim_ms) if rng.random() < 0.2 else 0),
                           "r": rng.choice(["wouldblock", "eintr", "wouldblock"])})
        nxt = [b for b in bounds if b > filled]
        if not nxt:
            break
        m = nxt[0] - filled
        if rng.random() < 0.5:
            m += rng.randint(1, 4)
        script.append({"dt": "0", "r": "moved", "n": m})
        filled = min(total, filled + m)
    end = rng.random()
    if end < 0.25:
        script.append({"dt": "0", "r": "moved", "n": 0})
    elif end < 0.45:
        e = _fail(rng)
        e["dt"] = "0"
        script.append(e)
    elif end < 0.6 and lim_ms:
        script.append({"dt": str(2 * lim_ms * 10**6), "r": "wouldblock"})
    elif end < 0.75:
        script.append({"dt": "0", "r": "moved", "n": 1})
    return script


def gen_retry_then_partial(rng, segs, lim_ms):
    """A failed attempt (EINTR / would-block) directly followed by a transfer that ends INSIDE a segment,
    then whatever the call asks for next: the short transfer must end the call with exactly the bytes
    moved, whatever errno the failed attempt left behind (a successful kernel call does not clear errno)."""
    script = []
    total = sum(segs)
    filled = 0
    # optionally complete some leading segments first
    acc = 0
    for i, l in enumerate(segs):
        if l and rng.random() < 0.3 and i + 1 < len(segs):
            script.append({"dt": "0", "r": "moved", "n": l})
            filled += l
            acc += l
        else:
            break
    for _ in range(rng.randint(1, 2)):
        script.append({"dt": "0", "r": rng.choice(["eintr", "eintr", "wouldblock"])})
    rest = [l for l in segs if l]
    cur = None
    pos = 0
    for l in segs:
        if pos + l > filled and l > 1:
            cur = (pos, l)
            break
        pos += l
    if cur:
        start, l = cur
        upto = start + l
        m = rng.randint(1, max(1, upto - filled - 1))
        script.append({"dt": "0", "r": "moved", "n": m})
        filled += m
    for _ in range(rng.randint(0, 3)):
        k = rng.random()
        if k < 0.6:
            script.append({"dt": "0", "r": "moved", "n": rng.randint(0, max(1, total - filled))})
        else:
            script.append({"dt": "0", "r": rng.choice(["eintr", "wouldblock"])})
    return script


def gen_case(rng, calls, nb_prob=0.2, wb_bias=0.25):
    call = rng.choice(calls)
    lim_ms = rng.choice(LIMITS_MS)
    if call in BUF:
        segs = [rng.choice([0, 1, 2, 3, 4, 5, 8])]
    elif call in VEC:
        segs = [rng.choice([0, 1, 2, 3, 4, 4, 5]) for _ in range(rng.choice([0, 1, 2, 2, 3, 3, 4]))]
    else:
        segs = []
    t0 = rng.choice([10**9, 10**9, 10**9, 0, 12345678901234, U64 - 10**8, U64 - 1, U64])
    if call == "connect":
        r = rng.random()
        first = ({"r": "done"} if r < 0.3 else {"r": "fail", "n": rng.choice([115, 114, 11, 111, 104, 110, 4])} if r < 0.8
                 else {"r": "wouldblock"} if r < 0.9 else {"r": "eintr"})
        first["dt"] = str(_dt(rng, lim_ms))
        script = [first]
    elif call != "accept" and rng.random() < 0.15:
        script = gen_retry_then_partial(rng, segs, lim_ms)
    elif call in VEC and rng.random() < 0.4:
        script = gen_chain(rng, segs, lim_ms)
    else:
        script = gen_script(rng, segs, lim_ms, call in VEC, wb_bias=wb_bias)
    interrupted = call == "connect" and (script[0]["r"] == "eintr" or (script[0]["r"] == "fail" and script[0].get("n") == 4))
    nwait = sum(1 for e in script if e["r"] in ("wouldblock",) or (e["r"] == "fail" and e.get("n") in (11, 115, 114)))
    nwait += 1 if interrupted else 0
    waitfail = []
    if nwait and rng.random() < 0.2:
        waitfail = [rng.random() < 0.5 for _ in range(nwait)]
    case = {"call": call, "nb": rng.random() < nb_prob, "limit_ms": lim_ms, "t0": str(t0), "segs": segs,
            "script": script, "waitfail": waitfail}
    if interrupted:
        # an interrupted connect made the loop of connect.rs spin for ever before its repair: own child
        # process with a watchdog, so that a regression shows as "diverged" instead of a hung batch
        case["isolate"] = True
        case["timeout_ms"] = 1500
    return case


# ------------------------------------------------------------------------------------ printing

def gnat(v):
    v = int(v)
    if v < 0 or v > NATCAP:
        v = NATCAP
    return str(v)


def _resp(e):
    r = e["r"]
    if r == "moved":
        return "Moved %s" % gnat(e.get("n", 0))
    if r == "wouldblock":
        return "WouldBlock"
    if r == "eintr":
        return "Interrupted"
    if r == "fail":
        return "Fail %s" % gz(e.get("n", 0))
    return "Done"


def cfg_term(case):
    script = glist(["(%s, %s)" % (gz(e.get("dt", 0)), _resp(e)) for e in case["script"]])
    return "(mkCfg %s %s %s %s %s%%nat %s %s)" % (
        SHAPES[case["call"]], gbool(case.get("nb", False)), gz(limit_ns(int(case.get("limit_ms", 0)))),
        gz(case.get("t0", 10**9)), glist([gnat(l) for l in case["segs"]]), script,
        glist([gbool(b) for b in case.get("waitfail", [])]))


def _req(q):
    ranges = glist(["(%s, %s, %s)" % (gnat(a), gnat(b), gnat(c)) for a, b, c in q["ranges"]])
    return "(mkReq %s %s %s%%nat %s %s)" % (gnat(q["count"]), gbool(q["nb"]), ranges, gz(q["err"]), gnat(q["moved"]))


def obs_term(obs):
    o = obs[-1] if obs else "harness-lost"
    if isinstance(o, dict):
        return "(RObs (mkObs %s %s %s %s %s %s %s))" % (
            gz(o["ret"]), gz(o["errno"]), glist([_req(q) for q in o["reqs"]]),
            glist([gz(x) for x in o["data"]]), glist([gz(w) for w in o["waits"]]),
            gbool(o["nb_after"]), gbool(o.get("scribbled", False)))
    if isinstance(o, str) and (o.startswith("aborted") or o.startswith("exited")):
        return "RAborted"
    if o == "diverged":
        return "RDiverged"
    return "RLost"


def term(case, obs):
    return "(%s, %s)" % (cfg_term(case), obs_term(obs))


# ------------------------------------------------------------------------------------ evidence

def nontrivial(case, obs, verdict):
    """the model's run retried, waited, transferred in several pieces, shifted a first entry, hit the
    deadline, or ended with -1"""
    t = set(verdict["tags"])
    return bool(t & {"wouldblock", "eintr", "multi_transfer", "shifted_head", "deadline", "minus_one", "harderror"})


def distribution(results):
    d = {"calls": {}, "nonblocking": 0, "with_timeout": 0, "segments": {}, "script_len": {}, "wait_failures": 0,
         "kernel_calls": 0, "ret_minus_one": 0}
    for c, o, v in results:
        d["calls"][c["call"]] = d["calls"].get(c["call"], 0) + 1
        d["nonblocking"] += 1 if c.get("nb") else 0
        d["with_timeout"] += 1 if c.get("limit_ms") else 0
        k = str(len(c["segs"]))
        d["segments"][k] = d["segments"].get(k, 0) + 1
        k = str(len(c["script"]))
        d["script_len"][k] = d["script_len"].get(k, 0) + 1
        d["wait_failures"] += 1 if any(c.get("waitfail", [])) else 0
        if o and isinstance(o[-1], dict):
            d["kernel_calls"] += len(o[-1]["reqs"])
            d["ret_minus_one"] += 1 if o[-1]["ret"] == -1 else 0
    return d


TRUSTED = [
    "scripted kernel passed as fn_ptr to the public open_coroutine_core::syscall::* entry points on a real "
    "AF_UNIX socketpair (is_socket, fcntl, getsockopt, epoll are the real ones)",
    "virtual clock (hook H1) advanced only by the scripted kernel; readiness waits recorded (and optionally "
    "failed) through the verif wait recorder, otherwise the real selector with <= 10 ms slices",
    "pointer -> (segment, offset) translation and the byte moves of the scripted kernel (harness/src/areas/sockio.rs)",
]
ASSUMPTIONS = [
    "scripts are finite: after the script every kernel call fails with ECONNRESET (an endless EINTR sequence "
    "makes the real retry loops spin; that is outside these statements)",
    "sizes stay inside isize (no usize wrap of the running total); debug build (overflow checks abort)",
    "Linux errno numbering; EAGAIN = EWOULDBLOCK",
    "a readiness wait that succeeds changes neither errno nor the descriptor",
]
