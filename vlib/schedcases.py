"""Generators and printers for scheduler histories (C10)."""
from .core import gz, glist
from . import cocases

U64 = 2**64 - 1
I64MAX = 2**63 - 1
I64MIN = -2**63


class Uid:
    def __init__(self):
        self.n = 0

    def next(self):
        self.n += 1
        return self.n % 1000


def gen_body(rng, uid, base, allow_sys=True):
    body = []
    n = rng.randint(0, 8)
    for _ in range(n):
        k = rng.random()
        if k < 0.30:
            body.append({"i": "suspend", "y": "0"})
        elif k < 0.45:
            body.append({"i": "delay", "y": "0", "d": str(rng.choice([0, 1, 2, 5, 50]) * 1000 + uid.next())})
        elif k < 0.60:
            body.append({"i": "until", "y": "0", "t": str(base + rng.choice([0, 1, 3, 10, 100]) * 1000 + uid.next())})
        elif k < 0.72:
            body.append({"i": "tick", "d": str(rng.choice([1, 2, 10]) * 1000)})
        elif k < 0.78:
            body.append({"i": "log", "k": rng.randrange(10)})
        elif k < 0.94 and allow_sys:
            # what a hooked sleep does: enter the syscall, park until t, come back, leave the syscall
            name = rng.randrange(3)
            t = base + rng.choice([1, 2, 5, 20]) * 1000 + uid.next()
            body.append({"i": "syscall", "y": "0", "n": name, "st": {"k": "exec"}})
            body.append({"i": "syscall", "y": "0", "n": name, "st": {"k": "susp", "t": str(t)}})
            body.append({"i": "until", "y": "0", "t": str(t)})
            body.append({"i": "syscall", "y": "0", "n": name, "st": {"k": "exec"}})
            body.append({"i": "running"})
        elif k < 0.97:
            body.append({"i": "cancel"})
            return body
        else:
            body.append({"i": "suspend", "y": "0"})
    k = rng.random()
    if k < 0.7:
        body.append({"i": "return", "v": str(rng.choice([0, 1, 7, 2**31, 2**62]))})
    elif k < 0.8:
        body.append({"i": "panic", "k": "static", "m": rng.randrange(100)})
    elif k < 0.9:
        body.append({"i": "panic", "k": "owned", "m": rng.randrange(100)})
    elif k < 0.95:
        body.append({"i": "panic", "k": "other", "m": 0})
    return body


def gen_case(rng):
    uid = Uid()
    clock = rng.choice([0, 10**6, 10**9, 2**62 // 1000 * 1000])
    ops = []
    cur = clock
    untils = []        # wake-up times asked for so far: a clock step may land exactly on one
    ticks = 0          # total of all Tick instructions submitted so far (the model clock never exceeds cur + ticks)
    nsub = 0
    for _ in range(rng.randint(3, 25)):
        k = rng.random()
        if k < 0.35 or nsub == 0:
            pr = rng.random()
            prio = None if pr < 0.4 else str(rng.choice([0, 0, 1, 1, -1, 2, I64MIN, I64MAX]))
            body = gen_body(rng, uid, cur)
            ticks += sum(int(i["d"]) for i in body if i["i"] == "tick")
            untils += [int(i["t"]) for i in body if i["i"] == "until"]
            ops.append({"op": "submit", "body": body, "prio": prio})
            nsub += 1
        elif k < 0.70:
            d = rng.random()
            if d < 0.5:
                deadline = U64
            elif d < 0.8:
                deadline = cur + rng.choice([1, 2, 5, 30]) * 1000
            else:
                deadline = rng.choice([0, cur, max(0, cur - 1000)])
            ops.append({"op": "pass", "deadline": str(min(deadline, U64))})
            cur += 0  # bodies may tick; the model knows
        elif k < 0.82:
            exact = [t for t in untils if t >= cur + ticks]
            if exact and rng.random() < 0.4:
                cur = min(exact)          # land exactly on a wake-up time (the boundary of "due")
            else:
                cur = min(U64 // 1000 * 1000, cur + ticks + rng.choice([1, 2, 5, 20, 200]) * 1000)
            ops.append({"op": "clock", "c": str(cur)})
        elif k < 0.91:
            ops.append({"op": "try_resume", "i": rng.randrange(nsub)})
        else:
            ops.append({"op": "cancel", "i": rng.randrange(nsub)})
    # let everything finish: advance far and run unbounded passes
    for _ in range(2):
        cur = min(U64 // 1000 * 1000, cur + ticks + 10**9)
        ops.append({"op": "clock", "c": str(cur)})
        ops.append({"op": "pass", "deadline": str(U64)})
    return {"clock": str(clock), "nl": 1, "ops": ops, "kind": "sched", "stream": True}


def g_op(o):
    k = o["op"]
    if k == "submit":
        prio = "None" if o["prio"] is None else "(Some %s)" % gz(o["prio"])
        return "Submit %s %s" % (glist([cocases.g_instr(i) for i in o["body"]]), prio)
    if k == "pass":
        return "Pass %s" % gz(o["deadline"])
    if k == "try_resume":
        return "TryResume %d" % o["i"]
    if k == "cancel":
        return "Cancel %d" % o["i"]
    if k == "clock":
        return "Clock %s" % gz(o["c"])
    raise ValueError(k)


def g_result(r):
    i, v = r
    if "ok" in v:
        return "(%d%%nat, ROk (Complete %s))" % (i, gz(v["ok"]))
    return "(%d%%nat, ROk (Error %s))" % (i, cocases.g_msg(v["err"]))


def g_obs(o):
    if o == "unit":
        return "SUnit"
    if isinstance(o, dict) and "pass" in o:
        evs = glist([cocases.g_ev(e) for e in o["ev"]])
        p = o["pass"]
        if p == "err":
            return "SPass PassErr %s" % evs
        if p == "unwound":
            return "SPass PassUnwound %s" % evs
        return "SPass (PassOk %s %s) %s" % (gz(p["left"]), glist([g_result(r) for r in p["results"]]), evs)
    if isinstance(o, dict) and "call" in o:
        return "SCall %s %s" % (cocases.g_res(o["call"]), glist([cocases.g_ev(e) for e in o["ev"]]))
    if o == "diverged":
        return "SPass PassDiverged []"
    return "SCall RBad []"


def term(case, obs):
    return ("{| sc_clock := %s; sc_nl := %d; sc_ops := %s; sc_impl := %s |}"
            % (gz(case["clock"]), case["nl"], glist([g_op(o) for o in case["ops"]]),
               glist([g_obs(o) for o in obs])))


def nontrivial(case, obs, verdict):
    return len(verdict["tags"]) >= 2


def distribution(results):
    d = {"ops": {}, "instr": {}, "tags": {}, "coroutines": 0, "events": 0}
    for c, o, v in results:
        for op in c["ops"]:
            d["ops"][op["op"]] = d["ops"].get(op["op"], 0) + 1
            if op["op"] == "submit":
                d["coroutines"] += 1
                for i in op["body"]:
                    d["instr"][i["i"]] = d["instr"].get(i["i"], 0) + 1
        for t in v["tags"]:
            d["tags"][t] = d["tags"].get(t, 0) + 1
        for x in o:
            if isinstance(x, dict):
                d["events"] += len(x.get("ev", []))
    return d
