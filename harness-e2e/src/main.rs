//! `ocv-e2e <case.json> <out.jsonl>`: run ONE case through the user-facing crate `open-coroutine`
//! only (`init`, `task!`, `JoinHandle<R>::{join, timeout_join, any_timeout_join, any_join,
//! try_cancel}`, `maybe_grow!`), which reaches the runtime through the C ABI of the
//! `open-coroutine-hook` cdylib (`open_coroutine_init`, `task_crate`, `task_join`,
//! `task_timeout_join`, `task_cancel`, `maybe_grow_stack`) and whose `libc::sleep/usleep/nanosleep`
//! calls made here are the symbols the cdylib interposes.
//!
//! One process per case (the runtime is process-global). Observations go to the file given as the
//! second argument, one JSON document per line: `P <json>` partial, `F <json>` final. stdout/stderr
//! carry the runtime's log and panic messages and are not part of the protocol.
//!
//! Times are nanoseconds since process start plus one (0 = "not yet"), real time.
use open_coroutine::{task, Config, JoinHandle};
use serde_json::{json, Value};
use std::fmt::Debug;
use std::io::Write;
use std::sync::atomic::{AtomicBool, AtomicU64, Ordering};
use std::sync::{Arc, OnceLock};
use std::time::{Duration, Instant};

static START: OnceLock<Instant> = OnceLock::new();
static OUT: OnceLock<String> = OnceLock::new();

fn now_ns() -> u64 {
    u64::try_from(START.get().expect("start").elapsed().as_nanos()).unwrap_or(u64::MAX - 1) + 1
}

fn emit(kind: &str, v: &Value) {
    let mut f = std::fs::OpenOptions::new()
        .create(true)
        .append(true)
        .open(OUT.get().expect("out"))
        .expect("open out");
    writeln!(f, "{kind} {v}").expect("write out");
}

/// pacing of THIS thread without going through an interposed symbol (`poll` is not hooked)
fn pause_ms(ms: i32) {
    unsafe {
        let _ = libc::poll(std::ptr::null_mut(), 0, ms);
    }
}

fn as_u64(v: &Value) -> u64 {
    match v {
        Value::String(s) => s.parse().expect("u64 string"),
        _ => v.as_u64().expect("u64"),
    }
}

fn as_i64(v: &Value) -> i64 {
    match v {
        Value::String(s) => s.parse().expect("i64 string"),
        _ => v.as_i64().expect("i64"),
    }
}

fn dur_of(kind: &str) -> Duration {
    match kind {
        "zero" => Duration::ZERO,
        "ns1" => Duration::from_nanos(1),
        "short" => Duration::from_millis(30),
        "mid" => Duration::from_millis(300),
        "long" => Duration::from_secs(3),
        "u64max" => Duration::from_nanos(u64::MAX),
        "max" => Duration::MAX,
        _ => panic!("unknown duration kind {kind}"),
    }
}

fn render<R: Debug>(r: std::io::Result<Option<R>>) -> Value {
    match r {
        Ok(Some(v)) => json!({"val": format!("{v:?}")}),
        Ok(None) => json!("none"),
        Err(e) => json!({"err": e.to_string()}),
    }
}

/// a panic of the facade function itself (on the calling thread) is an observation
fn guarded(f: impl FnOnce() -> Value) -> Value {
    match std::panic::catch_unwind(std::panic::AssertUnwindSafe(f)) {
        Ok(v) => v,
        Err(e) => {
            let m = e
                .downcast_ref::<&'static str>()
                .map(|s| (*s).to_string())
                .or_else(|| e.downcast_ref::<String>().cloned())
                .unwrap_or_else(|| "?".to_string());
            json!({"panicked": m})
        }
    }
}

/// type-erased handle
trait H {
    fn tj(&self, d: Duration) -> Value;
    fn join(self: Box<Self>) -> Value;
    fn cancel(self: Box<Self>) -> Value;
}

impl<R: Debug> H for JoinHandle<R> {
    fn tj(&self, d: Duration) -> Value {
        guarded(|| render(self.timeout_join(d)))
    }
    fn join(self: Box<Self>) -> Value {
        guarded(|| render((*self).join()))
    }
    fn cancel(self: Box<Self>) -> Value {
        guarded(|| match (*self).try_cancel() {
            Ok(()) => json!("ok"),
            Err(e) => json!({"err": e.to_string()}),
        })
    }
}

#[derive(Clone, Default)]
struct Marks {
    started: Arc<AtomicU64>,
    fin: Arc<AtomicU64>,
    slept_ns: Arc<AtomicU64>,
}

/// what a body does before it produces its outcome: optionally wait through one of the INTERPOSED
/// libc symbols (the coroutine is parked, the event loop stays free), or spin (the loop is held)
#[derive(Clone)]
struct Pre {
    how: String,
    ms: u64,
    marks: Marks,
    release: Option<Arc<AtomicBool>>,
}

impl Pre {
    fn of(spec: &Value, marks: Marks, release: Option<Arc<AtomicBool>>) -> Self {
        let p = &spec["pre"];
        Pre {
            how: p["how"].as_str().unwrap_or("none").to_string(),
            ms: if p["ms"].is_null() { 0 } else { as_u64(&p["ms"]) },
            marks,
            release,
        }
    }

    fn run(&self) {
        self.marks.started.store(now_ns(), Ordering::Release);
        let t0 = Instant::now();
        match self.how.as_str() {
            "usleep" => unsafe {
                let _ = libc::usleep(u32::try_from(self.ms * 1000).expect("usleep range"));
            },
            "sleep" => unsafe {
                let _ = libc::sleep(u32::try_from(self.ms / 1000).expect("sleep range"));
            },
            "nanosleep" => unsafe {
                let ts = libc::timespec {
                    tv_sec: libc::time_t::try_from(self.ms / 1000).expect("sec"),
                    tv_nsec: libc::c_long::try_from((self.ms % 1000) * 1_000_000).expect("nsec"),
                };
                let _ = libc::nanosleep(&ts, std::ptr::null_mut());
            },
            "stdsleep" => std::thread::sleep(Duration::from_millis(self.ms)),
            "spin" => {
                // holds the event-loop thread: until released, at most `ms`
                while t0.elapsed() < Duration::from_millis(self.ms) {
                    if let Some(r) = &self.release {
                        if r.load(Ordering::Acquire) {
                            break;
                        }
                    }
                    std::hint::spin_loop();
                }
            }
            _ => {}
        }
        self.marks.slept_ns.store(
            u64::try_from(t0.elapsed().as_nanos()).unwrap_or(u64::MAX),
            Ordering::Release,
        );
        self.marks.fin.store(now_ns(), Ordering::Release);
    }
}

fn prio_of(spec: &Value) -> Option<i64> {
    if spec["prio"].is_null() {
        None
    } else {
        Some(as_i64(&spec["prio"]))
    }
}

/// submit `f` (a closure of the parameter) with parameter `p` through `task!`
fn go<P: 'static, R: Debug + 'static, F: FnOnce(P) -> R + 'static>(
    pre: Pre,
    prio: Option<i64>,
    p: P,
    f: F,
) -> JoinHandle<R> {
    let body = move |p: P| {
        pre.run();
        f(p)
    };
    match prio {
        Some(x) => task!(body, p, x),
        None => task!(body, p),
    }
}

/// panic text used by the "fmt"/"static"/"expect" outcomes (the Python side computes the same)
fn fmt_text(n: u64) -> String {
    format!("task {n} failed: code={}", n.wrapping_mul(7))
}

const STATIC_TEXTS: [&str; 4] = [
    "static failure zero",
    "boom",
    "",
    "line one\nline two",
];

fn panics_with(o: &Value) -> ! {
    match o["k"].as_str().expect("k") {
        "static" => {
            let i = usize::try_from(as_u64(&o["m"])).expect("idx") % STATIC_TEXTS.len();
            match i {
                0 => panic!("static failure zero"),
                1 => panic!("boom"),
                2 => std::panic::panic_any(STATIC_TEXTS[2]),
                _ => panic!("line one\nline two"),
            }
        }
        "fmt" => {
            let n = as_u64(&o["m"]);
            panic!("task {} failed: code={}", n, n.wrapping_mul(7))
        }
        "owned" => std::panic::panic_any(fmt_text(as_u64(&o["m"]))),
        "expect" => {
            let n = as_u64(&o["m"]);
            let none: Option<u8> = None;
            let _ = none.expect(&format!("need {n}"));
            unreachable!()
        }
        "unwrap" => {
            let none: Option<u8> = None;
            let _ = none.unwrap();
            unreachable!()
        }
        "other" => std::panic::panic_any(42u32),
        k => panic!("unknown panic kind {k}"),
    }
}

fn spawn(spec: &Value, marks: Marks, release: Option<Arc<AtomicBool>>) -> Box<dyn H> {
    let pre = Pre::of(spec, marks, release);
    let prio = prio_of(spec);
    let o = spec["out"].clone();
    match o["k"].as_str().expect("out kind") {
        "unit" => Box::new(go(pre, prio, (), |()| ())),
        "i32" => Box::new(go(pre, prio, i32::try_from(as_i64(&o["v"])).expect("i32"), |p| p)),
        "i64" => Box::new(go(pre, prio, as_i64(&o["v"]), |p| p)),
        "u64" => Box::new(go(pre, prio, as_u64(&o["v"]), |p| p)),
        "usize0" => Box::new(go(pre, prio, (), |()| 0usize)),
        "bool" => Box::new(go(pre, prio, o["v"].as_bool().expect("bool"), |p| p)),
        "opt" => {
            let v: Option<u32> = if o["v"].is_null() { None } else { Some(u32::try_from(as_u64(&o["v"])).expect("u32")) };
            Box::new(go(pre, prio, v, |p| p))
        }
        "string" => Box::new(go(pre, prio, o["v"].as_str().expect("str").to_string(), |p| p)),
        "result" => {
            let v: Result<u8, String> = if o["ok"].is_null() {
                Err(o["err"].as_str().expect("err").to_string())
            } else {
                Ok(u8::try_from(as_u64(&o["ok"])).expect("u8"))
            };
            Box::new(go(pre, prio, v, |p| p))
        }
        "array" => {
            let n = as_u64(&o["v"]);
            Box::new(go(pre, prio, n, |n| [n, n.wrapping_add(1), n.wrapping_mul(3), u64::MAX]))
        }
        "vec" => {
            let n = usize::try_from(as_u64(&o["v"])).expect("len");
            Box::new(go(pre, prio, n, |n| (0..n).map(|i| (i % 251) as u8).collect::<Vec<u8>>()))
        }
        "grow" => {
            // the value is computed on a grown stack through the facade's maybe_grow!
            let n = as_u64(&o["v"]);
            Box::new(go(pre, prio, n, |n| {
                open_coroutine::maybe_grow!(32 * 1024, 256 * 1024, move || n.wrapping_add(1000))
                    .map_err(|e| e.to_string())
            }))
        }
        _ => Box::new(go(pre, prio, o, |o| -> u8 { panics_with(&o) })),
    }
}

/// same, fixed result type `i64` (for `any_timeout_join` / `any_join`, which need one type)
fn spawn_i64(spec: &Value, marks: Marks) -> JoinHandle<i64> {
    let pre = Pre::of(spec, marks, None);
    let prio = prio_of(spec);
    let o = spec["out"].clone();
    if o["k"] == "i64" {
        go(pre, prio, as_i64(&o["v"]), |p| p)
    } else {
        go(pre, prio, o, |o| -> i64 { panics_with(&o) })
    }
}

fn wait_fin(m: &Marks, max_ms: u64) {
    let t0 = Instant::now();
    while m.fin.load(Ordering::Acquire) == 0 && t0.elapsed() < Duration::from_millis(max_ms) {
        pause_ms(2);
    }
}

fn do_joins(h: Box<dyn H>, spec: &Value, m: &Marks) -> Value {
    let mut joins = Vec::new();
    let mut h = Some(h);
    let mut handed = false;
    for j in spec["joins"].as_array().expect("joins") {
        let before = m.fin.load(Ordering::Acquire);
        if before != 0 {
            // the body has produced its outcome: give the worker time to publish the result
            pause_ms(80);
        }
        let t_call = now_ns();
        let unlimited = j["api"] == "join" || j["dur"] == "max" || j["dur"] == "u64max";
        if handed && unlimited {
            // the outcome has been handed out: an unlimited wait would (rightly) never return
            joins.push(json!({"r": "skipped"}));
            continue;
        }
        let r = match j["api"].as_str().expect("api") {
            "tj" => h.as_ref().map_or(json!("moved"), |h| h.tj(dur_of(j["dur"].as_str().expect("dur")))),
            "join" => h.take().map_or(json!("moved"), H::join),
            "cancel" => h.take().map_or(json!("moved"), H::cancel),
            a => panic!("unknown api {a}"),
        };
        let t_ret = now_ns();
        let after = m.fin.load(Ordering::Acquire);
        let mut first = Value::Null;
        let mut r = r;
        let mut tries = 0;
        while before != 0 && !handed && j["api"] == "tj" && r == json!({"err": "timeout join failed"}) && tries < 4 {
            // produced its outcome and still a timeout: again, half a second later (up to 2 s), to
            // tell a result that was published late (unwinding, a descheduled loop thread on a loaded
            // machine) from one that is never handed out
            pause_ms(500);
            if tries == 0 {
                first = r;
            }
            tries += 1;
            r = h.as_ref().map_or(json!("moved"), |h| h.tj(dur_of(j["dur"].as_str().expect("dur"))));
        }
        if r.get("val").is_some() || r.get("err").map_or(false, |e| e != "timeout join failed" && e != "join failed") {
            handed = true;
        }
        joins.push(json!({"r": r, "t_call": t_call.to_string(), "t_ret": t_ret.to_string(), "first": first,
                          "fin_before": before.to_string(), "fin_after": after.to_string()}));
    }
    // when the body did produce its outcome (a call that gave up early must not hide it)
    wait_fin(m, 6000);
    json!({"joins": joins, "started": m.started.load(Ordering::Acquire).to_string(),
           "fin": m.fin.load(Ordering::Acquire).to_string()})
}

/// tasks with joins on their handles, one after the other or all submitted first
fn run_joins(case: &Value) -> Vec<Value> {
    let tasks = case["tasks"].as_array().expect("tasks");
    let mut obs = Vec::new();
    if case["spawn_all"].as_bool().unwrap_or(false) {
        let mut hs = Vec::new();
        for t in tasks {
            let m = Marks::default();
            hs.push((spawn(t, m.clone(), None), m));
        }
        for (t, (h, m)) in tasks.iter().zip(hs) {
            if t["wait_fin"].as_bool().unwrap_or(false) {
                wait_fin(&m, 5000);
            }
            let v = do_joins(h, t, &m);
            emit("P", &v);
            obs.push(v);
        }
    } else {
        for t in tasks {
            let m = Marks::default();
            let h = spawn(t, m.clone(), None);
            if t["wait_fin"].as_bool().unwrap_or(false) {
                wait_fin(&m, 5000);
            }
            let v = do_joins(h, t, &m);
            emit("P", &v);
            obs.push(v);
        }
    }
    obs
}

/// `try_cancel` of a task that has not started (the single event loop is held by a spinning task),
/// next to bystanders whose joins must still return their own outcomes
fn run_cancel(case: &Value) -> Vec<Value> {
    let release = Arc::new(AtomicBool::new(false));
    let bm = Marks::default();
    let blocker = spawn(&case["blocker"], bm.clone(), Some(release.clone()));
    let t0 = Instant::now();
    while bm.started.load(Ordering::Acquire) == 0 && t0.elapsed() < Duration::from_secs(5) {
        pause_ms(1);
    }
    let blocker_started = bm.started.load(Ordering::Acquire) != 0;
    let mut hs = Vec::new();
    for t in case["tasks"].as_array().expect("tasks") {
        let m = Marks::default();
        hs.push((spawn(t, m.clone(), None), m, t.clone()));
    }
    // cancel the victims while nothing else can run
    let mut cancels = Vec::new();
    let mut rest = Vec::new();
    for (h, m, t) in hs {
        if t["cancel"].as_bool().unwrap_or(false) {
            let started_before = m.started.load(Ordering::Acquire);
            let r = h.cancel();
            cancels.push((r, m, started_before));
        } else {
            rest.push((h, m, t));
        }
    }
    release.store(true, Ordering::Release);
    let mut obs = Vec::new();
    obs.push(json!({"blocker_started": blocker_started, "blocker": blocker.join()}));
    let mut by = Vec::new();
    for (h, m, t) in rest {
        by.push(do_joins(h, &t, &m));
    }
    // leave the loop time to run a victim if it is ever going to
    pause_ms(300);
    for (r, m, started_before) in cancels {
        obs.push(json!({"cancel": r, "started_before_cancel": started_before != 0,
                        "ran": m.started.load(Ordering::Acquire) != 0}));
    }
    obs.push(json!({"bystanders": by}));
    obs
}

/// `any_timeout_join` / `any_join` over handles of one result type
fn run_any(case: &Value) -> Vec<Value> {
    let tasks = case["tasks"].as_array().expect("tasks");
    let mut hs: Vec<JoinHandle<i64>> = Vec::new();
    let mut ms = Vec::new();
    for t in tasks {
        let m = Marks::default();
        hs.push(spawn_i64(t, m.clone()));
        ms.push(m);
    }
    for (t, m) in tasks.iter().zip(&ms) {
        if t["wait_fin"].as_bool().unwrap_or(false) {
            wait_fin(m, 5000);
        }
    }
    if ms.iter().any(|m| m.fin.load(Ordering::Acquire) != 0) {
        pause_ms(80);
    }
    let before: Vec<String> = ms.iter().map(|m| m.fin.load(Ordering::Acquire).to_string()).collect();
    let t_call = now_ns();
    // kept if the call never returns
    emit("P", &json!({"pre": {"t_call": t_call.to_string(), "fin_before": before}}));
    let r = match case["api"].as_str().expect("api") {
        "any_timeout_join" => {
            let d = dur_of(case["dur"].as_str().expect("dur"));
            guarded(|| render(JoinHandle::any_timeout_join(d, &hs)))
        }
        "any_join" => guarded(|| render(JoinHandle::any_join(hs))),
        a => panic!("unknown api {a}"),
    };
    let t_ret = now_ns();
    let after: Vec<String> = ms.iter().map(|m| m.fin.load(Ordering::Acquire).to_string()).collect();
    vec![json!({"r": r, "t_call": t_call.to_string(), "t_ret": t_ret.to_string(),
                "fin_before": before, "fin_after": after})]
}

/// N tasks on the one event loop, each waiting through an interposed libc symbol: the waits
/// must overlap, every wait must last at least what was asked, every join returns its own index
fn run_sleepers(case: &Value) -> Vec<Value> {
    let mut hs = Vec::new();
    let t_begin = now_ns();
    for (i, s) in case["sleepers"].as_array().expect("sleepers").iter().enumerate() {
        let m = Marks::default();
        let spec = json!({"out": {"k": "u64", "v": i.to_string()}, "pre": s.clone()});
        hs.push((spawn(&spec, m.clone(), None), m));
    }
    let mut per = Vec::new();
    for (h, m) in hs {
        let r = h.join();
        per.push(json!({"r": r, "started": m.started.load(Ordering::Acquire).to_string(),
                        "fin": m.fin.load(Ordering::Acquire).to_string(),
                        "slept_ns": m.slept_ns.load(Ordering::Acquire).to_string()}));
    }
    let t_end = now_ns();
    vec![json!({"sleepers": per, "t_begin": t_begin.to_string(), "t_end": t_end.to_string()})]
}

fn main() {
    let _ = START.set(Instant::now());
    let args: Vec<String> = std::env::args().collect();
    if args.len() < 3 {
        eprintln!("usage: ocv-e2e <case.json> <out.jsonl>");
        std::process::exit(2);
    }
    let case: Value = serde_json::from_str(&std::fs::read_to_string(&args[1]).expect("read case")).expect("case json");
    let _ = OUT.set(args[2].clone());
    if std::env::var_os("OCV_VERBOSE").is_none() {
        // panics of task bodies are observations here; keep stderr quiet and unwinding cheap
        std::panic::set_hook(Box::new(|_| {}));
    }
    let mut cfg = Config::single();
    if !case["loops"].is_null() {
        let _ = cfg.set_event_loop_size(usize::try_from(as_u64(&case["loops"])).expect("loops"));
    }
    if !case["hook"].is_null() {
        let _ = cfg.set_hook(case["hook"].as_bool().expect("hook"));
    }
    open_coroutine::init(cfg);
    emit("P", &json!("init"));
    let obs = match case["kind"].as_str().expect("kind") {
        "joins" => run_joins(&case),
        "cancel" => run_cancel(&case),
        "any" => run_any(&case),
        "sleepers" => run_sleepers(&case),
        k => panic!("unknown case kind {k}"),
    };
    emit("F", &json!({"id": case["id"], "obs": obs}));
    // the event-loop threads are still running; leave without running destructors
    unsafe { libc::_exit(0) }
}
